#!/bin/bash
# setup_cmd: offline release build of the harness (and the hooked xs binary) from files on disk.
set -e
export CARGO_NET_OFFLINE=true
mkdir -p /verif/work /verif/evidence
cd /verif/harness
cargo build --release --offline 2>&1 | tail -3
test -x /verif/target/release/xsmon
