//! C12 Miri leg: the TTL codec of the repository (`src/store/ttl.rs`, included by path) under the
//! undefined-behaviour interpreter. Prints `MIRI-TTL ok <cases>` or panics on a round-trip failure.
#[path = "/repo/src/store/ttl.rs"]
mod ttl;

use std::time::Duration;
use ttl::{parse_ttl, TTL};

fn main() {
    let mut cases = 0u32;
    let mut values = vec![TTL::Forever, TTL::Ephemeral];
    for n in [0u64, 1, 999, 1000, 60_000, u32::MAX as u64, u64::MAX / 2, u64::MAX] {
        values.push(TTL::Time(Duration::from_millis(n)));
    }
    for k in [1u32, 2, 9, 10, 65535, u32::MAX] {
        values.push(TTL::Head(k));
    }
    for v in &values {
        let q = v.to_query();
        assert_eq!(TTL::from_query(Some(&q)).as_ref(), Ok(v), "query spelling {}", q);
        let js = serde_json::to_string(v).unwrap();
        assert_eq!(&serde_json::from_str::<TTL>(&js).unwrap(), v, "json spelling {}", js);
        cases += 2;
    }
    for s in ["head:0", "head:-1", "head:", "time:", "time:-1", "time:1.5", "time:18446744073709551616", "head:4294967296", "Forever", "", "bogus", "head:1 ", "time:٣"] {
        assert!(parse_ttl(s).is_err(), "malformed accepted: {:?}", s);
        assert!(TTL::from_query(Some(&format!("ttl={}", s.replace(' ', "%20")))).is_err(), "malformed accepted via query: {:?}", s);
        cases += 2;
    }
    assert_eq!(TTL::from_query(None), Ok(TTL::Forever));
    assert_eq!(TTL::from_query(Some("x=1")), Ok(TTL::Forever));
    println!("MIRI-TTL ok {}", cases + 2);
}
