#!/bin/bash
# the repository's own suite with the `verif` feature OFF (the default)
cd /repo && exec cargo test --workspace --no-fail-fast --offline </dev/null
