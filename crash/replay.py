#!/usr/bin/env python3
"""E3 crash explorer, offline part: parse an `strace -f -y -xx` log of a store session, replay the
storage system calls through a small file-system emulator, and materialise crash images:

  kill   : every completed syscall up to the crash point applied (process killed, page cache kept)
  torn   : the next write to a store file applied only up to a cut
  power  : per file, bytes written after its last completed fsync/fdatasync dropped (or kept only up
           to a seeded prefix); directory operations are kept (a stated model, not the kernel's freedom)

usage: replay.py <trace> <store_dir> <out_dir> <seed> <max_torn_per_write> [<max_points>]
Writes <out_dir>/manifest.json and one directory per image.
"""
import json, os, re, shutil, sys, random

HEX = re.compile(rb'\\x([0-9a-f]{2})')


def unhex(s):
    """decode a strace -xx string body (bytes) into bytes"""
    return HEX.sub(lambda m: bytes([int(m.group(1), 16)]), s)


def split_args(s):
    """split top-level comma separated args of a syscall (strings, <...> annotations, [..] and {..} nest)"""
    out, cur, depth, instr, i = [], bytearray(), 0, False, 0
    while i < len(s):
        c = s[i:i + 1]
        if instr:
            cur += c
            if c == b'\\':
                cur += s[i + 1:i + 2]
                i += 1
            elif c == b'"':
                instr = False
        elif c == b'"':
            instr = True
            cur += c
        elif c in b'<[{(':
            depth += 1
            cur += c
        elif c in b'>]})':
            depth -= 1
            cur += c
        elif c == b',' and depth == 0:
            out.append(bytes(cur).strip())
            cur = bytearray()
        else:
            cur += c
        i += 1
    if cur.strip():
        out.append(bytes(cur).strip())
    return out


def fd_and_path(arg):
    """'5<\\x2f...>' -> (5, '/...')"""
    m = re.match(rb'^(-?\d+|AT_FDCWD)<(.*)>$', arg, re.S)
    if not m:
        m2 = re.match(rb'^(-?\d+)$', arg)
        return (int(m2.group(1)) if m2 else None, None)
    fd = -100 if m.group(1) == b'AT_FDCWD' else int(m.group(1))
    return fd, unhex(m.group(2)).decode('utf-8', 'replace')


def str_arg(arg):
    m = re.match(rb'^"(.*)"(\.\.\.)?$', arg, re.S)
    return unhex(m.group(1)) if m else b''


class File:
    __slots__ = ('data', 'size', 'synced_data', 'synced_size', 'ever_synced')

    def __init__(self):
        self.data = bytearray()   # bytes up to the high-water mark of written data
        self.size = 0             # logical length (may exceed len(data): zeros)
        self.synced_data = bytearray()
        self.synced_size = 0
        self.ever_synced = False

    def write_at(self, off, b):
        if off > len(self.data):
            self.data.extend(b'\0' * (off - len(self.data)))
        self.data[off:off + len(b)] = b
        self.size = max(self.size, off + len(b))

    def truncate(self, n):
        if n < len(self.data):
            del self.data[n:]
        self.size = n

    def sync(self):
        self.synced_data = bytearray(self.data)
        self.synced_size = self.size
        self.ever_synced = True

    def clone(self):
        f = File()
        f.data = bytearray(self.data)
        f.size = self.size
        f.synced_data = bytearray(self.synced_data)
        f.synced_size = self.synced_size
        f.ever_synced = self.ever_synced
        return f


class FS:
    def __init__(self, root):
        self.root = root
        self.files = {}
        self.dirs = set()
        self.fds = {}  # fd -> dict(path, off, append)

    def inside(self, p):
        return p is not None and (p == self.root or p.startswith(self.root + '/'))


def parse(trace_path):
    """-> list of events {start, end, pid, call, args (list of bytes), ret (int|None)}"""
    pending = {}
    events = []
    with open(trace_path, 'rb') as fh:
        for idx, line in enumerate(fh):
            line = line.rstrip(b'\n')
            m = re.match(rb'^(\d+)\s+(.*)$', line, re.S)
            if not m:
                continue
            pid, rest = int(m.group(1)), m.group(2)
            if rest.endswith(b'<unfinished ...>'):
                pending[pid] = (idx, rest[:-len(b'<unfinished ...>')])
                continue
            start = idx
            mr = re.match(rb'^<\.\.\. (\w+) resumed>(.*)$', rest, re.S)
            if mr:
                if pid not in pending:
                    continue
                start, prefix = pending.pop(pid)
                rest = prefix + mr.group(2)
            mc = re.match(rb'^(\w+)\((.*)\)\s+=\s+(-?\d+|\?)(.*)$', rest, re.S)
            if not mc:
                continue
            call = mc.group(1).decode()
            ret = None if mc.group(3) == b'?' else int(mc.group(3))
            events.append({'start': start, 'end': idx, 'pid': pid, 'call': call, 'raw': mc.group(2), 'ret': ret, 'tail': mc.group(4)})
    return events


def apply(fs, ev, cut=None):
    """apply one completed event to the emulated file system; returns a short description or None.
    `cut`: apply a write only up to this many bytes (torn write)."""
    call, ret = ev['call'], ev['ret']
    if ret is None or ret < 0:
        return None
    a = split_args(ev['raw'])
    if call in ('openat', 'open', 'creat'):
        if call == 'openat':
            path_arg, flags = a[1], a[2] if len(a) > 2 else b''
        else:
            path_arg, flags = a[0], a[1] if len(a) > 1 else b'O_CREAT|O_WRONLY|O_TRUNC'
        m = re.match(rb'^(\d+)<(.*)>$', (str(ret).encode() + ev['tail'].strip()), re.S)
        path = unhex(m.group(2)).decode('utf-8', 'replace') if m else str_arg(path_arg).decode('utf-8', 'replace')
        if not fs.inside(path):
            return None
        fs.fds[ret] = {'path': path, 'off': 0, 'append': b'O_APPEND' in flags}
        if b'O_DIRECTORY' in flags or path in fs.dirs:
            return None
        if path not in fs.files:
            if b'O_CREAT' in flags:
                fs.files[path] = File()
                return 'create ' + path
            return None
        if b'O_TRUNC' in flags:
            fs.files[path].truncate(0)
            return 'trunc ' + path
        return None
    if call == 'close':
        fd, _ = fd_and_path(a[0])
        fs.fds.pop(fd, None)
        return None
    if call in ('dup', 'dup2', 'dup3'):
        fd, _ = fd_and_path(a[0])
        if fd in fs.fds:
            fs.fds[ret] = fs.fds[fd]
        return None
    if call in ('write', 'pwrite64', 'writev', 'pwritev'):
        fd, path = fd_and_path(a[0])
        d = fs.fds.get(fd)
        if d is None or not fs.inside(d['path']):
            return None
        if call in ('write', 'pwrite64'):
            data = str_arg(a[1])[:ret]
        else:
            data = b''.join(unhex(x) for x in re.findall(rb'iov_base="((?:[^"\\]|\\.)*)"', a[1], re.S))[:ret]
        if cut is not None:
            data = data[:cut]
        f = fs.files.setdefault(d['path'], File())
        if call in ('pwrite64', 'pwritev'):
            off = int(a[-1]) if call == 'pwrite64' else int(a[3])
            f.write_at(off, data)
        else:
            off = f.size if d['append'] else d['off']
            f.write_at(off, data)
            d['off'] = off + len(data)
        return 'write %s +%d' % (d['path'], len(data))
    if call == 'lseek':
        fd, _ = fd_and_path(a[0])
        if fd in fs.fds:
            fs.fds[fd]['off'] = ret
        return None
    if call in ('ftruncate', 'truncate'):
        fd, path = fd_and_path(a[0])
        p = fs.fds.get(fd, {}).get('path') if call == 'ftruncate' else str_arg(a[0]).decode('utf-8', 'replace')
        if p and fs.inside(p):
            fs.files.setdefault(p, File()).truncate(int(a[1]))
            return 'truncate %s %d' % (p, int(a[1]))
        return None
    if call == 'fallocate':
        fd, _ = fd_and_path(a[0])
        p = fs.fds.get(fd, {}).get('path')
        if p and fs.inside(p) and a[1].strip() == b'0':
            f = fs.files.setdefault(p, File())
            f.size = max(f.size, int(a[2]) + int(a[3]))
            return 'fallocate ' + p
        return None
    if call in ('fsync', 'fdatasync'):
        fd, path = fd_and_path(a[0])
        p = fs.fds.get(fd, {}).get('path') or path
        if p and p in fs.files:
            fs.files[p].sync()
            return 'fsync ' + p
        return None
    if call in ('rename', 'renameat', 'renameat2'):
        if call == 'rename':
            old, new = str_arg(a[0]).decode('utf-8', 'replace'), str_arg(a[1]).decode('utf-8', 'replace')
        else:
            old, new = str_arg(a[1]).decode('utf-8', 'replace'), str_arg(a[3]).decode('utf-8', 'replace')
        if not (fs.inside(old) or fs.inside(new)):
            return None
        if old in fs.files:
            fs.files[new] = fs.files.pop(old)
        elif old in fs.dirs:
            fs.dirs.discard(old)
            fs.dirs.add(new)
            for p in [p for p in fs.files if p.startswith(old + '/')]:
                fs.files[new + p[len(old):]] = fs.files.pop(p)
        else:
            fs.files[new] = File()
        return 'rename %s -> %s' % (old, new)
    if call in ('unlink', 'unlinkat'):
        p = str_arg(a[0] if call == 'unlink' else a[1]).decode('utf-8', 'replace')
        if fs.inside(p):
            if p in fs.files:
                del fs.files[p]
            fs.dirs.discard(p)
            return 'unlink ' + p
        return None
    if call in ('mkdir', 'mkdirat'):
        p = str_arg(a[0] if call == 'mkdir' else a[1]).decode('utf-8', 'replace')
        if fs.inside(p):
            fs.dirs.add(p)
            return 'mkdir ' + p
        return None
    if call == 'rmdir':
        p = str_arg(a[0]).decode('utf-8', 'replace')
        fs.dirs.discard(p)
        return 'rmdir ' + p
    return None


def stdout_line(ev):
    """bytes written to fd 1 (the child's ack / marker channel), else None"""
    if ev['call'] != 'write' or ev['ret'] is None or ev['ret'] < 0:
        return None
    a = split_args(ev['raw'])
    if not re.match(rb'^1<', a[0]):
        return None
    return str_arg(a[1])[:ev['ret']]


def materialise(fs, store_dir, image_dir, power=None, rng=None):
    """write the emulated state under image_dir. power: None | 'drop' | 'prefix'"""
    root = fs.root
    os.makedirs(image_dir, exist_ok=True)
    for d in sorted(fs.dirs):
        os.makedirs(image_dir + d[len(root):], exist_ok=True)
    for p, f in fs.files.items():
        rel = p[len(root):]
        dst = image_dir + rel
        os.makedirs(os.path.dirname(dst), exist_ok=True)
        if '/cacache/' in rel:
            # content is written through mmap (invisible to strace): content-addressed files are copied
            # from the live directory; temp files are irrelevant
            src = store_dir + rel
            if '/content-v2/' in rel and os.path.exists(src):
                shutil.copyfile(src, dst)
            else:
                open(dst, 'wb').close()
            continue
        data, size = f.data, f.size
        if power and not rel.endswith('/lock'):
            if not f.ever_synced:
                data, size = bytearray(), (f.size if power == 'prefix' else 0)
                if power == 'drop':
                    size = 0
            else:
                sd = f.synced_data
                if power == 'prefix' and len(f.data) > len(sd) and f.data[:len(sd)] == sd:
                    keep = len(sd) + rng.randint(0, len(f.data) - len(sd))
                    data, size = f.data[:keep], max(f.synced_size, keep)
                else:
                    data, size = sd, f.synced_size
        with open(dst, 'wb') as out:
            # keep it sparse: only up to the last non-zero byte, then extend
            end = len(data)
            while end > 0 and data[end - 1] == 0:
                end -= 1
            out.write(bytes(data[:end]))
            out.truncate(size)


def main():
    trace, store_dir, out_dir, seed, max_torn = sys.argv[1], sys.argv[2].rstrip('/'), sys.argv[3], int(sys.argv[4]), int(sys.argv[5])
    max_points = int(sys.argv[6]) if len(sys.argv) > 6 else 10 ** 9
    base = sys.argv[7] if len(sys.argv) > 7 else None
    rng = random.Random(seed)
    events = parse(trace)
    fs = FS(store_dir)
    load_base(fs, base)
    os.makedirs(out_dir, exist_ok=True)
    images = []
    ready = False
    acked = []      # op numbers acknowledged so far
    begun = None    # op number begun and not yet acknowledged
    effective = []  # indices of events that changed the store (after READY)
    # pass 1: find the effective events (cheap dry run on a scratch FS)
    scratch = FS(store_dir)
    load_base(scratch, base)
    marks = {}
    r2 = False
    for i, ev in enumerate(events):
        line = stdout_line(ev)
        if line is not None:
            if b'"ready"' in line:
                r2 = True
            marks[i] = line
            continue
        if apply(scratch, ev) and r2:
            effective.append(i)
    if len(effective) > max_points:
        keep = set(rng.sample(effective, max_points))
        effective = [i for i in effective if i in keep]
    eff = set(effective)
    n = 0
    stats = {'events': len(events), 'effective_points': len(effective), 'kill': 0, 'torn': 0, 'power': 0, 'in_flight_syscalls': 0}
    stream = os.environ.get('XSMON_REPLAY_STREAM') == '1'
    batch_bytes = [0]

    def image_bytes(d):
        t = 0
        for dp, _, fns in os.walk(d):
            for fn in fns:
                try:
                    t += os.stat(os.path.join(dp, fn)).st_blocks * 512
                except OSError:
                    pass
        return t

    def flush_batch(force=False):
        """hand the images produced so far to the consumer and wait until it has dealt with them"""
        if not stream or not images:
            return
        if not force and len(images) < 192 and batch_bytes[0] < 1_500_000_000:
            return
        sys.stdout.write(json.dumps({'batch': images}) + '\n')
        sys.stdout.flush()
        sys.stdin.readline()
        del images[:]
        batch_bytes[0] = 0

    for i, ev in enumerate(events):
        if stream and images:
            batch_bytes[0] += 8 * image_bytes(images[-1]["dir"]) if len(images) % 8 == 0 else 0
            flush_batch()
        if i in marks:
            line = marks[i]
            if b'"ready"' in line:
                ready = True
            for part in line.split(b'\n'):
                mb = re.match(rb'^#B (\d+)', part)
                if mb:
                    begun = int(mb.group(1))
                mk = re.search(rb'"k":(\d+)', part)
                if mk and not part.startswith(b'#'):
                    acked.append(int(mk.group(1)))
                    if begun == int(mk.group(1)):
                        begun = None
            continue
        # torn variants of THIS event: crash in the middle of a write to a store file
        if ready and i in eff and ev['call'] in ('write', 'pwrite64') and ev['ret'] and ev['ret'] > 1:
            a = split_args(ev['raw'])
            fd, _ = fd_and_path(a[0])
            d = fs.fds.get(fd)
            if d and fs.inside(d['path']) and '/cacache/' not in d['path']:
                L = ev['ret']
                cuts = set(range(1, L)) if L - 1 <= max_torn else set([1, L - 1] + [rng.randint(1, L - 1) for _ in range(max_torn)] + [c for c in (4096, 8192, 8191, 8193) if c < L])
                for c in sorted(cuts)[:max(max_torn, 4) if L - 1 > max_torn else L]:
                    snap = clone_fs(fs)
                    apply(snap, ev, cut=c)
                    img = os.path.join(out_dir, 'img%06d' % n)
                    materialise(snap, store_dir, img)
                    images.append({'dir': img, 'point': i, 'kind': 'torn', 'cut': c, 'of': L, 'acked': list(acked), 'begun': begun, 'what': 'write ' + d['path'][len(store_dir):]})
                    n += 1
                    stats['torn'] += 1
        what = apply(fs, ev)
        if ev['start'] != ev['end']:
            stats['in_flight_syscalls'] += 1
        if ready and i in eff:
            img = os.path.join(out_dir, 'img%06d' % n)
            materialise(fs, store_dir, img)
            images.append({'dir': img, 'point': i, 'kind': 'kill', 'acked': list(acked), 'begun': begun, 'what': (what or '')[len(''):].replace(store_dir, '')})
            n += 1
            stats['kill'] += 1
            # power loss: only where some file has bytes beyond its last fsync
            if any((f.size != f.synced_size or f.data != f.synced_data) for p, f in fs.files.items() if '/cacache/' not in p and not p.endswith('/lock')):
                for mode in ('drop', 'prefix'):
                    img = os.path.join(out_dir, 'img%06d' % n)
                    materialise(fs, store_dir, img, power=mode, rng=rng)
                    images.append({'dir': img, 'point': i, 'kind': 'power-' + mode, 'acked': list(acked), 'begun': begun, 'what': (what or '').replace(store_dir, '')})
                    n += 1
                    stats['power'] += 1
    flush_batch(force=True)
    # the final state, for the fidelity self-check against the live directory
    img = os.path.join(out_dir, 'final')
    materialise(fs, store_dir, img)
    json.dump({'images': images, 'final': img, 'stats': stats, 'acked_total': acked}, open(os.path.join(out_dir, 'manifest.json'), 'w'))
    if stream:
        sys.stdout.write(json.dumps({'done': True, 'final': img, 'stats': stats}) + '\n')
        sys.stdout.flush()


def load_base(fs, base):
    """the store directory as it was when the traced session began (after a clean stop: all of it durable)"""
    if not base:
        return
    base = base.rstrip('/')
    for dp, dns, fns in os.walk(base):
        rel = dp[len(base):]
        fs.dirs.add(fs.root + rel)
        for fn in fns:
            p = os.path.join(dp, fn)
            if os.path.islink(p) or not os.path.isfile(p):
                continue
            f = File()
            if '/cacache/' not in p:
                data = open(p, 'rb').read()
                f.size = len(data)
                end = len(data)
                while end > 0 and data[end - 1] == 0:
                    end -= 1
                f.data = bytearray(data[:end])
            f.sync()
            fs.files[fs.root + rel + '/' + fn] = f


def clone_fs(fs):
    c = FS(fs.root)
    c.files = {p: f.clone() for p, f in fs.files.items()}
    c.dirs = set(fs.dirs)
    c.fds = {k: dict(v) for k, v in fs.fds.items()}
    return c


if __name__ == '__main__':
    main()
