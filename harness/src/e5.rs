//! E5 — component trace checker (C14–C19, parts of C06/C10): a child process runs the real
//! serve loops; the parent drives it through the store API, records the global frame log with
//! one eager follower, and checks trace specifications offline. Scripts are instrumented at the
//! nushell level: every output identifies the invocation that produced it.

use std::collections::{BTreeMap, BTreeSet};
use std::path::PathBuf;
use std::time::{Duration, Instant};

use scru128::Scru128Id;
use serde_json::{json, Value};

use xs::store::{Frame, TTL, ZERO_CONTEXT};

use crate::session::{b64, rm_dir, unb64, work_dir, Session, SessionError};

pub type R<T> = Result<T, SessionError>;

pub struct Srv {
    pub dir: PathBuf,
    pub sess: Option<Session>,
    pub log: Vec<Frame>,
    pub era: u32,
    pub log_era_start: Vec<usize>,
    pub panics: Vec<String>,
    fid: String,
    env: Vec<(String, String)>,
}

impl Srv {
    pub fn start(tag: &str) -> R<Srv> {
        Self::start_env(tag, &[])
    }

    pub fn start_env(tag: &str, env: &[(&str, &str)]) -> R<Srv> {
        let dir = work_dir(tag);
        let mut s = Srv { dir, sess: None, log: vec![], era: 0, log_era_start: vec![0], panics: vec![], fid: "mon0".into(), env: env.iter().map(|(a, b)| (a.to_string(), b.to_string())).collect() };
        s.spawn()?;
        Ok(s)
    }

    fn spawn(&mut self) -> R<()> {
        let env: Vec<(&str, &str)> = self.env.iter().map(|(a, b)| (a.as_str(), b.as_str())).collect();
        let sess = Session::spawn_with(&self.dir, true, &env)?;
        self.sess = Some(sess);
        self.fid = format!("mon{}", self.era);
        let fid = self.fid.clone();
        // the monitor: all contexts, from the beginning of the stream, drained eagerly by the child
        self.call(json!({"op": "follow_start", "fid": fid, "query": "follow=true"}))?;
        Ok(())
    }

    pub fn call(&mut self, op: Value) -> R<Value> {
        let v = self.sess.as_mut().unwrap().call(op)?;
        if let Some(p) = v.get("panics").and_then(|p| p.as_array()) {
            for x in p {
                self.panics.push(x.as_str().unwrap_or("").to_string());
            }
        }
        Ok(v)
    }

    pub fn append(&mut self, topic: &str, ctx: Scru128Id, content: Option<&[u8]>, meta: Option<Value>, ttl: Option<TTL>) -> R<Result<Frame, String>> {
        let f = Frame::builder(topic, ctx).maybe_meta(meta).maybe_ttl(ttl).build();
        let mut op = json!({"op": "append", "frame": f});
        if let Some(c) = content {
            op["content_b64"] = json!(b64(c));
        }
        let v = self.call(op)?;
        Ok(match v.get("ok") {
            Some(fv) => serde_json::from_value::<Frame>(fv.clone()).map_err(|e| e.to_string()),
            None => Err(v["err"].as_str().unwrap_or("?").to_string()),
        })
    }

    pub fn must_append(&mut self, topic: &str, ctx: Scru128Id, content: Option<&[u8]>, meta: Option<Value>, ttl: Option<TTL>) -> R<Frame> {
        match self.append(topic, ctx, content, meta, ttl)? {
            Ok(f) => Ok(f),
            Err(e) => Err(SessionError::Harness(format!("append {} failed: {}", topic, e))),
        }
    }

    pub fn new_context(&mut self) -> R<Scru128Id> {
        Ok(self.must_append("xs.context", ZERO_CONTEXT, None, None, None)?.id)
    }

    pub fn cas(&mut self, hash: &ssri::Integrity) -> R<Option<Vec<u8>>> {
        let v = self.call(json!({"op": "cas_read", "hash": hash.to_string()}))?;
        Ok(v["b64"].as_str().map(unb64))
    }

    pub fn content_str(&mut self, f: &Frame) -> R<Option<String>> {
        match &f.hash {
            Some(h) => Ok(self.cas(h)?.map(|b| String::from_utf8_lossy(&b).to_string())),
            None => Ok(None),
        }
    }

    /// pull what the monitor has received so far into `self.log` (frames of this process era)
    pub fn pull(&mut self) -> R<bool> {
        let fid = self.fid.clone();
        let start = *self.log_era_start.last().unwrap();
        let have = self.log.len() - start;
        let v = self.call(json!({"op": "follow_poll", "fid": fid, "min": 0, "wait_ms": 0, "from": have}))?;
        let items: Vec<Frame> = serde_json::from_value(v["items"].clone()).unwrap_or_default();
        self.log.extend(items);
        Ok(v["closed"].as_bool().unwrap_or(false))
    }

    /// frames of the current era's monitor (history replay + live)
    pub fn era_log(&self) -> &[Frame] {
        &self.log[*self.log_era_start.last().unwrap()..]
    }

    /// wait until `pred(log)` holds (bounded); false = watchdog expired
    pub fn wait(&mut self, timeout: Duration, mut pred: impl FnMut(&[Frame]) -> bool) -> R<bool> {
        let t0 = Instant::now();
        loop {
            self.pull()?;
            if pred(self.era_log()) {
                return Ok(true);
            }
            if t0.elapsed() > timeout {
                return Ok(false);
            }
            std::thread::sleep(Duration::from_millis(5));
        }
    }

    /// quiescence: no new frame for `quiet` (bounded by `max`)
    pub fn settle(&mut self, quiet: Duration, max: Duration) -> R<()> {
        let t0 = Instant::now();
        let mut last_len = usize::MAX;
        let mut last_change = Instant::now();
        loop {
            self.pull()?;
            if self.log.len() != last_len {
                last_len = self.log.len();
                last_change = Instant::now();
            }
            if last_change.elapsed() >= quiet || t0.elapsed() > max {
                return Ok(());
            }
            std::thread::sleep(Duration::from_millis(5));
        }
    }

    pub fn restart(&mut self, kill: bool) -> R<()> {
        let _ = self.pull();
        let s = self.sess.take().unwrap();
        if kill {
            s.kill();
        } else {
            s.close();
        }
        self.era += 1;
        self.log_era_start.push(self.log.len());
        self.spawn()
    }

    pub fn stderr(&self) -> String {
        self.sess.as_ref().map(|s| s.stderr()).unwrap_or_default()
    }

    pub fn finish(mut self) {
        if let Some(s) = self.sess.take() {
            s.close();
        }
        rm_dir(&self.dir);
    }
}

pub fn meta_str<'a>(f: &'a Frame, k: &str) -> Option<&'a str> {
    f.meta.as_ref().and_then(|m| m.get(k)).and_then(|v| v.as_str())
}

pub fn is_synth(f: &Frame) -> bool {
    f.topic == "xs.threshold" || f.topic == "xs.pulse"
}

#[derive(Default)]
pub struct CaseResult {
    pub findings: Vec<crate::model::Finding>,
    pub counters: BTreeMap<String, u64>,
    pub sets: BTreeMap<String, BTreeSet<String>>,
    pub sample: Option<Value>,
    pub inconclusive: Option<String>,
    pub nontrivial: bool,
    pub hash: u64,
}

impl CaseResult {
    pub fn count(&mut self, k: &str, n: u64) {
        *self.counters.entry(k.to_string()).or_insert(0) += n;
    }
    pub fn seen(&mut self, k: &str, v: impl Into<String>) {
        self.sets.entry(k.to_string()).or_default().insert(v.into());
    }
    pub fn find(&mut self, props: &[&'static str], sig: impl Into<String>, detail: Value) {
        let sig = sig.into();
        if self.findings.iter().filter(|f| f.signature == sig).count() < 2 {
            self.findings.push(crate::model::finding(props, sig, detail));
        }
    }
}

pub fn ids_of(fs: &[&Frame]) -> Vec<String> {
    fs.iter().map(|f| f.id.to_string()).collect()
}

/// map a session error in the middle of a case to the three-valued verdict
pub fn absorb(res: &mut CaseResult, props: &[&'static str], e: SessionError, stderr: String) {
    match e {
        SessionError::Timeout(m) => res.inconclusive = Some(format!("watchdog: {}", m)),
        SessionError::Harness(m) => res.inconclusive = Some(format!("harness: {}", m)),
        SessionError::Died(m) => {
            if m.contains("No space left") || m.contains("Cannot allocate") {
                res.inconclusive = Some(format!("resources: {}", m));
            } else {
                res.find(props, "server-process-died", json!({"message": m.chars().take(1200).collect::<String>(), "stderr": stderr.chars().rev().take(600).collect::<String>().chars().rev().collect::<String>()}));
            }
        }
    }
}
