//! C16 — handler lifecycle: one active instance per (context, name); every stop announced once;
//! once `.registered` is visible the handler is subscribed (announce/subscribe race forced by a
//! delay hook at the top of Handler::serve).

use std::collections::BTreeMap;
use std::time::Duration;

use scru128::Scru128Id;
use serde_json::json;

use xs::store::{Frame, ZERO_CONTEXT};

use crate::e5::*;
use crate::report::fnv;
use crate::rng::Rng;

fn script(tag: &str) -> String {
    format!(
        r#"{{
  run: {{|frame|
    if $frame.topic == "fail" {{ error make {{msg: ($frame.meta?.msg? | default "failing-on-purpose")}} }}
    if $frame.topic != "trig" {{ return }}
    {{ans: $frame.id, tag: "{tag}"}}
  }}
}}"#
    )
}

const BAD_SCRIPTS: &[&str] = &[
    "{run: {|| 1}}",
    "{run: {|frame| ",
    "{norun: 1}",
    "this is not nu (((",
    // a configuration that does not parse makes the script invalid as a whole
    "{return_options: {ttl: \"head:0\"}, run: {|frame| 1}}",
    "{return_options: {ttl: \"never\"}, run: {|frame| 1}}",
];

pub fn run_case(seed: u64) -> CaseResult {
    let mut res = CaseResult::default();
    let mut srv = match Srv::start("c16") {
        Ok(s) => s,
        Err(e) => {
            res.inconclusive = Some(format!("start: {}", e));
            return res;
        }
    };
    let r = case(&mut srv, seed, &mut res);
    if let Err(e) = r {
        let stderr = srv.stderr();
        absorb(&mut res, &["C16"], e, stderr);
    }
    if !srv.panics.is_empty() {
        res.find(&["C16"], "panic-in-server", json!({"panics": srv.panics}));
    }
    srv.finish();
    res
}

fn case(srv: &mut Srv, seed: u64, res: &mut CaseResult) -> R<()> {
    let mut rng = Rng::new(seed);
    let ctx_a = srv.new_context()?;
    let ctxs = [ZERO_CONTEXT, ctx_a];
    // prefix-related names: a lifecycle frame of one must never be taken for a lifecycle frame of another
    // ... and one name that contains a lifecycle word itself
    let names = ["h", "hx", "h.sub", "n.registered.x"];
    // race forcing: delay the handler task before it subscribes
    let delay_ms = [0u64, 0, 5, 20][rng.below(4)];
    if delay_ms > 0 {
        srv.call(json!({"op": "hook", "delays": [["handler.serve_start", delay_ms]]}))?;
    }
    res.seen("serve_start_delay_ms", delay_ms.to_string());
    let n_events = 8 + rng.below(8);
    let mut events: Vec<String> = vec![];
    // which (ctx,name) currently has an instance we believe active (only to bias the generator)
    let mut active: BTreeMap<(usize, usize), bool> = BTreeMap::new();
    for ev in 0..n_events {
        let ci = rng.below(2);
        let ni = rng.below(4);
        let ctx = ctxs[ci];
        let name = names[ni];
        let is_active = *active.get(&(ci, ni)).unwrap_or(&false);
        let kind = if !is_active { *rng.pick(&["register", "register", "register-bad", "trigger", "unregister"]) } else { *rng.pick(&["trigger", "trigger", "register", "unregister", "unregister-targeted", "fail", "trigger-burst"]) };
        events.push(format!("{}:{}@{}", kind, name, if ci == 0 { "zero" } else { "A" }));
        match kind {
            "register" => {
                let reg = srv.must_append(&format!("{}.register", name), ctx, Some(script(&format!("e{}", ev)).as_bytes()), None, None)?;
                active.insert((ci, ni), true);
                // the client reacts the moment it sees `.registered`: two triggers right away
                let hid = reg.id.to_string();
                let tn = format!("{}.registered", name);
                let seen = srv.wait(Duration::from_secs(20), |log| log.iter().any(|f| f.topic == tn && meta_str(f, "handler_id") == Some(&hid)))?;
                if seen {
                    srv.must_append("trig", ctx, None, Some(json!({"right_after_registered": hid})), None)?;
                    srv.must_append("trig", ctx, None, Some(json!({"second_after_registered": hid})), None)?;
                    res.count("triggers_right_after_registered", 2);
                }
            }
            "register-bad" => {
                let bad = *rng.pick(BAD_SCRIPTS);
                srv.must_append(&format!("{}.register", name), ctx, Some(bad.as_bytes()), None, None)?;
                active.insert((ci, ni), false);
            }
            "unregister-targeted" => {
                // an unregister that names the running instance in its meta (as a supervisor would)
                srv.pull()?;
                let tn = format!("{}.registered", name);
                let current = srv.era_log().iter().rev().find(|f| f.topic == tn && f.context_id == ctx).and_then(|f| meta_str(f, "handler_id").map(|s| s.to_string()));
                srv.must_append(&format!("{}.unregister", name), ctx, None, Some(json!({"handler_id": current, "reason": "targeted"})), None)?;
                active.insert((ci, ni), false);
            }
            "unregister" => {
                srv.must_append(&format!("{}.unregister", name), ctx, None, None, None)?;
                active.insert((ci, ni), false);
            }
            "fail" => {
                // the error text is data: short, or long and multi-byte (of varying alignment), or with quotes and newlines
                let msg: Option<String> = match rng.below(4) {
                    0 => None,
                    1 => Some(format!("{}{}", "x".repeat(rng.below(4)), "é".repeat(700 + rng.below(900)))),
                    2 => Some(format!("{}{}", "y".repeat(rng.below(3)), "日本語".repeat(300 + rng.below(500)))),
                    _ => Some("line1\nline2 \"quoted\" \\ tab\t end".to_string()),
                };
                srv.must_append("fail", ctx, None, msg.map(|m| json!({"msg": m})), None)?;
                // every handler of that context fails on it
                for n2 in 0..4 {
                    active.insert((ci, n2), false);
                }
            }
            "trigger-burst" => {
                for i in 0..5 {
                    srv.must_append("trig", ctx, None, Some(json!({"i": i})), None)?;
                }
            }
            _ => {
                srv.must_append("trig", ctx, None, None, None)?;
            }
        }
        if rng.chance(600) {
            srv.settle(Duration::from_millis(40 + delay_ms), Duration::from_secs(5))?;
        }
    }
    srv.settle(Duration::from_millis(250 + 2 * delay_ms), Duration::from_secs(10))?;
    // canaries: fresh handlers registered last answer a final trigger in each context => earlier ones had their chance
    for (ci, ctx) in ctxs.iter().enumerate() {
        let reg = srv.must_append("canary.register", *ctx, Some(script("canary").as_bytes()), None, None)?;
        let hid = reg.id.to_string();
        let ok = srv.wait(Duration::from_secs(20), |log| log.iter().any(|f| f.topic == "canary.registered" && meta_str(f, "handler_id") == Some(&hid)))?;
        if !ok {
            res.inconclusive = Some("canary never announced".into());
            return Ok(());
        }
        let t = srv.must_append("trig", *ctx, None, Some(json!({"final": ci})), None)?;
        let tid = t.id.to_string();
        let ok = srv.wait(Duration::from_secs(20), |log| log.iter().any(|f| f.topic == "canary.out" && meta_str(f, "frame_id") == Some(&tid)))?;
        if !ok {
            // with a delayed subscription the canary itself may miss its trigger: that is the defect under test
            res.find(&["C16"], "trigger-after-registered-never-processed", json!({"handler": "canary", "handler_id": hid, "delay_ms": delay_ms}));
        }
    }
    srv.settle(Duration::from_millis(200 + 2 * delay_ms), Duration::from_secs(10))?;
    check(srv, res, &events, delay_ms);
    res.hash = fnv(&events.join(","));
    Ok(())
}

fn check(srv: &Srv, res: &mut CaseResult, events: &[String], delay_ms: u64) {
    let log: Vec<Frame> = srv.era_log().iter().filter(|f| !is_synth(f)).cloned().collect();
    let d = json!({"events": events, "serve_start_delay_ms": delay_ms});
    // group by (context, name)
    let mut groups: BTreeMap<(Scru128Id, String), Vec<&Frame>> = BTreeMap::new();
    for f in &log {
        if let Some((name, suffix)) = f.topic.rsplit_once('.') {
            if matches!(suffix, "register" | "registered" | "unregister" | "unregistered" | "out") && matches!(name, "h" | "hx" | "h.sub" | "n.registered.x" | "canary") {
                groups.entry((f.context_id, name.to_string())).or_default().push(f);
            }
        }
    }
    let mut instances = 0u64;
    let mut answered = 0u64;
    for ((ctx, name), frames) in &groups {
        let ctx_frames: Vec<&Frame> = log.iter().filter(|f| f.context_id == *ctx).collect();
        let regs: Vec<&&Frame> = frames.iter().filter(|f| f.topic.ends_with(".register")).collect();
        for r in &regs {
            instances += 1;
            let hid = r.id.to_string();
            let registered: Vec<&&Frame> = frames.iter().filter(|f| f.topic.ends_with(".registered") && meta_str(f, "handler_id") == Some(&hid)).collect();
            let unregistered: Vec<&&Frame> = frames.iter().filter(|f| f.topic.ends_with(".unregistered") && meta_str(f, "handler_id") == Some(&hid)).collect();
            let outs: Vec<&&Frame> = frames.iter().filter(|f| f.topic.ends_with(".out") && meta_str(f, "handler_id") == Some(&hid)).collect();
            let g = json!({"case": d, "name": name, "context": ctx.to_string(), "handler_id": hid});
            if registered.len() > 1 {
                res.find(&["C16"], "registered-announced-more-than-once", g.clone());
            }
            if unregistered.len() > 1 {
                res.find(&["C16"], "more-than-one-unregistered-for-one-instance", json!({"group": g, "frames": unregistered}));
            }
            if registered.is_empty() && unregistered.is_empty() {
                res.find(&["C16"], "register-neither-announced-nor-refused", g.clone());
                continue;
            }
            if registered.is_empty() {
                // start refused: must carry an error, and the instance never answers
                if meta_str(unregistered[0], "error").is_none() {
                    res.find(&["C16"], "refused-registration-without-error", json!({"group": g, "frame": unregistered[0]}));
                }
                if !outs.is_empty() {
                    res.find(&["C16"], "refused-instance-answered-a-trigger", g.clone());
                }
                continue;
            }
            let announced = registered[0].id;
            // the stop frame of this instance: first later (un)register of its name, or first `fail` frame, in its context
            let stop: Option<&&Frame> = ctx_frames.iter().find(|f| f.id > r.id && ((f.topic == format!("{}.register", name) || f.topic == format!("{}.unregister", name)) || (f.topic == "fail" && f.id > announced)));
            match stop {
                Some(s) => {
                    if unregistered.is_empty() {
                        res.find(&["C16"], "stop-not-announced-by-unregistered", json!({"group": g, "stop_frame": s}));
                    } else {
                        let u = unregistered[0];
                        if meta_str(u, "frame_id") != Some(&s.id.to_string()) && s.id > announced {
                            res.find(&["C16"], "unregistered-names-a-different-stop-frame", json!({"group": g, "unregistered": u, "expected_stop": s}));
                        }
                        if s.topic == "fail" && meta_str(u, "error").is_none() {
                            res.find(&["C16"], "error-stop-without-error", json!({"group": g, "unregistered": u}));
                        }
                    }
                }
                None => {
                    if !unregistered.is_empty() {
                        res.find(&["C16"], "unregistered-without-a-stop-event", json!({"group": g, "frame": unregistered[0]}));
                    }
                }
            }
            let stop_id = stop.map(|s| s.id);
            // triggers
            for t in ctx_frames.iter().filter(|f| f.topic == "trig") {
                let tid = t.id.to_string();
                let n = outs.iter().filter(|o| meta_str(o, "frame_id") == Some(&tid)).count();
                let in_must = t.id > announced && stop_id.map(|s| t.id < s).unwrap_or(true);
                let in_may = t.id > r.id && t.id < announced;
                if n > 1 {
                    res.find(&["C16", "C14"], "trigger-answered-twice-by-one-instance", json!({"group": g, "trigger": t}));
                }
                if in_must && n == 0 {
                    res.find(&["C16"], "trigger-after-registered-never-processed", json!({"group": g, "trigger": t, "announced": announced.to_string(), "delay_ms": delay_ms}));
                }
                if n > 0 && !in_must && !in_may {
                    let sig = if stop_id.map(|s| t.id > s).unwrap_or(false) { "stopped-instance-processed-a-later-trigger" } else { "instance-answered-a-trigger-from-before-its-registration" };
                    res.find(&["C16"], sig, json!({"group": g, "trigger": t}));
                }
                if n > 0 {
                    answered += 1;
                }
            }
        }
        // at most one instance of this (context, name) answers any trigger
        let mut by_trigger: BTreeMap<String, Vec<String>> = BTreeMap::new();
        for o in frames.iter().filter(|f| f.topic.ends_with(".out")) {
            if let (Some(t), Some(h)) = (meta_str(o, "frame_id"), meta_str(o, "handler_id")) {
                by_trigger.entry(t.to_string()).or_default().push(h.to_string());
            }
        }
        for (t, hs) in by_trigger {
            let mut u = hs.clone();
            u.sort();
            u.dedup();
            if u.len() > 1 {
                res.find(&["C16"], "two-instances-of-one-name-answered-the-same-trigger", json!({"case": d, "name": name, "context": ctx.to_string(), "trigger": t, "instances": u}));
            }
        }
    }
    res.count("handler_instances_checked", instances);
    res.count("answered_triggers", answered);
    res.nontrivial = instances >= 3 && answered >= 2;
    if res.sample.is_none() {
        res.sample = Some(json!({"events": events, "delay_ms": delay_ms, "instances": instances}));
    }
}
