//! C06 — contexts are isolated on every access path. Every frame written carries a tag naming
//! its context and the same topics are used in all contexts, so a frame surfacing in a foreign
//! scope is recognised from the observation alone.

use std::collections::{BTreeMap, BTreeSet};
use std::time::Duration;

use scru128::Scru128Id;
use serde_json::{json, Value};

use xs::store::{Frame, TTL, ZERO_CONTEXT};

use crate::e5::*;
use crate::http::{self, Req};
use crate::report::fnv;
use crate::rng::Rng;

fn tag_of(f: &Frame) -> Option<String> {
    f.meta.as_ref().and_then(|m| m.get("ctx")).and_then(|c| c.as_str()).map(|s| s.to_string())
}

fn iso_handler(other: &Scru128Id) -> String {
    format!(
        r#"{{
  run: {{|frame|
    if $frame.topic != "go" {{ return }}
    let cat = (.cat | each {{|f| $f.meta?.ctx? | default "none"}} | uniq)
    let cat_limited = (.cat --limit 3 | each {{|f| $f.meta?.ctx? | default "none"}} | uniq)
    let head_own = (.head t | get meta?.ctx? | default "none")
    let head_named = (.head t --context "{other}" | get meta?.ctx? | default "none")
    let head_elsewhere = (["only-zero" "only-A" "only-B"] | each {{|t| .head $t | get meta?.ctx? | default "none"}})
    "forced" | .append forced --context "{other}" --meta {{ctx: "from-handler"}}
    {{cat: $cat, cat_limited: $cat_limited, head_own: $head_own, head_named: $head_named, head_elsewhere: $head_elsewhere, trigger: $frame.id}}
  }}
}}"#
    )
}

fn iso_command(other: &Scru128Id) -> String {
    format!(
        r#"{{
  run: {{|frame|
    let cat = (.cat | each {{|f| $f.meta?.ctx? | default "none"}} | uniq)
    let head_own = (.head t | get meta?.ctx? | default "none")
    let head_named = (.head t --context "{other}" | get meta?.ctx? | default "none")
    let head_elsewhere = (["only-zero" "only-A" "only-B"] | each {{|t| .head $t | get meta?.ctx? | default "none"}})
    "side" | .append cmdside --meta {{ctx: "from-command"}}
    [{{cat: $cat, head_own: $head_own, head_named: $head_named, head_elsewhere: $head_elsewhere}}] | each {{|x| $x}}
  }}
}}"#
    )
}

pub fn run_case(seed: u64) -> CaseResult {
    let mut res = CaseResult::default();
    let mut srv = match Srv::start("c06") {
        Ok(s) => s,
        Err(e) => {
            res.inconclusive = Some(format!("start: {}", e));
            return res;
        }
    };
    let r = case(&mut srv, seed, &mut res);
    if let Err(e) = r {
        let stderr = srv.stderr();
        absorb(&mut res, &["C06"], e, stderr);
    }
    srv.finish();
    res
}

fn frames_of(v: &Value) -> Vec<Frame> {
    serde_json::from_value(v.clone()).unwrap_or_default()
}

fn case(srv: &mut Srv, seed: u64, res: &mut CaseResult) -> R<()> {
    let mut rng = Rng::new(seed);
    let a = srv.new_context()?;
    let b = srv.new_context()?;
    // numerically adjacent context ids, registered by import
    // ... chosen so that x -> x+1 carries over one byte (…FF -> …00) and y -> y+1 over two (…FFFF -> …0000)
    let base = scru128::new().to_u128() - 0x1000000;
    let x = Scru128Id::from((base & !0xffu128) | 0xff);
    let x1 = Scru128Id::from(x.to_u128() + 1);
    let y = Scru128Id::from(((base - 0x1000000) & !0xffffu128) | 0xffff);
    let y1 = Scru128Id::from(y.to_u128() + 1);
    // ... and one pair whose increment carries out of the whole 32-bit entropy field of the id layout
    let z = Scru128Id::from(((base - 0x3000000) & !0xffff_ffffu128) | 0xffff_ffff);
    let z1 = Scru128Id::from(z.to_u128() + 1);
    for id in [x, x1, y, y1, z, z1] {
        let f = Frame::builder("xs.context", ZERO_CONTEXT).id(id).build();
        let v = srv.call(json!({"op": "import", "frame": f}))?;
        if v.get("ok").is_none() {
            res.inconclusive = Some("could not import a context registration".into());
            return Ok(());
        }
    }
    let ctxs: Vec<(Scru128Id, &str)> = vec![(ZERO_CONTEXT, "zero"), (a, "A"), (b, "B"), (x, "X"), (x1, "X+1"), (y, "Y"), (y1, "Y+1"), (z, "Z"), (z1, "Z+1")];
    let label: BTreeMap<Scru128Id, &str> = ctxs.iter().cloned().collect();
    let topics = ["t", "ta", ""];

    // followers started before the traffic (live delivery path) with a spread of options
    let mut followers: Vec<(String, Scru128Id, String)> = vec![];
    for (i, (c, _)) in ctxs.iter().enumerate() {
        let opts = match rng.below(4) {
            0 => format!("follow=true&context-id={}", c),
            1 => format!("follow=true&tail=true&context-id={}", c),
            2 => format!("follow=5&context-id={}", c),
            _ => format!("follow=true&limit=1000&context-id={}", c),
        };
        let fid = format!("iso{}", i);
        srv.call(json!({"op": "follow_start", "fid": fid, "query": opts}))?;
        followers.push((fid, *c, opts));
    }
    // handlers / commands / generators in A and B (same names in both)
    for (c, other) in [(a, b), (b, a)] {
        srv.must_append("iso.register", c, Some(iso_handler(&other).as_bytes()), None, None)?;
    }
    // command names are global across contexts (the last definition wins everywhere), so the command
    // is defined once, in the context it is called from
    srv.must_append("isoc.define", a, Some(iso_command(&b).as_bytes()), None, None)?;
    srv.must_append("gen.spawn", a, Some(b"[\"g-A\"] | each {|x| $x}"), None, None)?;
    srv.wait(Duration::from_secs(30), |log| log.iter().filter(|f| f.topic == "iso.registered").count() >= 2)?;

    // traffic: the same topics in every context, each frame tagged with its context
    let mut last_ids: BTreeMap<Scru128Id, Vec<Scru128Id>> = BTreeMap::new();
    let n = 6 + rng.below(10);
    for i in 0..n {
        let mut order: Vec<usize> = (0..ctxs.len()).collect();
        rng.shuffle(&mut order);
        for ci in order {
            let (c, l) = ctxs[ci];
            let t = topics[rng.below(3)];
            let ttl = match rng.below(6) {
                0 => Some(TTL::Ephemeral),
                1 => Some(TTL::Head(3)),
                _ => None,
            };
            let f = srv.must_append(t, c, None, Some(json!({"ctx": l, "i": i})), ttl.clone())?;
            if ttl != Some(TTL::Ephemeral) {
                last_ids.entry(c).or_default().push(f.id);
            }
        }
    }
    // make sure topic "t" has a head everywhere
    for (c, l) in &ctxs {
        srv.must_append("t", *c, None, Some(json!({"ctx": l, "i": "head"})), None)?;
    }
    // topics that exist in one context only: a scoped lookup elsewhere finds nothing (no fallback to any other context)
    srv.must_append("only-zero", ZERO_CONTEXT, None, Some(json!({"ctx": "zero", "i": "only"})), None)?;
    srv.must_append("only-A", a, None, Some(json!({"ctx": "A", "i": "only"})), None)?;
    srv.must_append("only-B", b, None, Some(json!({"ctx": "B", "i": "only"})), None)?;
    // triggers: only context A gets a "go"; A's command is called in A
    let go = srv.must_append("go", a, None, Some(json!({"ctx": "A"})), None)?;
    let call = srv.must_append("isoc.call", a, None, Some(json!({"ctx": "A"})), None)?;
    let goid = go.id.to_string();
    let callid = call.id.to_string();
    let done = srv.wait(Duration::from_secs(30), |log| {
        log.iter().any(|f| f.topic == "iso.out" && meta_str(f, "frame_id") == Some(&goid)) && log.iter().any(|f| f.topic == "isoc.complete" && meta_str(f, "frame_id") == Some(&callid))
    })?;
    if !done {
        res.inconclusive = Some("handler / command did not answer within 30 s".into());
        return Ok(());
    }
    // a later frame in B that B's handler demonstrably ignores (it only reacts to "go"), then a "go" in B as progress witness
    let go_b = srv.must_append("go", b, None, Some(json!({"ctx": "B"})), None)?;
    let gobid = go_b.id.to_string();
    srv.wait(Duration::from_secs(30), |log| log.iter().any(|f| f.topic == "iso.out" && meta_str(f, "frame_id") == Some(&gobid)))?;
    srv.settle(Duration::from_millis(200), Duration::from_secs(5))?;
    let log: Vec<Frame> = srv.era_log().iter().filter(|f| !is_synth(f)).cloned().collect();
    let mut observations = 0u64;

    let mut check_scope = |res: &mut CaseResult, path: &str, scope: Scru128Id, frames: &[Frame], detail: Value| {
        let want = label[&scope];
        for f in frames {
            if is_synth(f) {
                if f.context_id != scope {
                    res.find(&["C06", "C11"], format!("{}/synthetic-frame-carries-another-context", path), json!({"scope": want, "frame": f, "options": detail}));
                }
                continue;
            }
            let foreign_tag = tag_of(f).map(|t| t != want && !t.starts_with("from-")).unwrap_or(false);
            if f.context_id != scope || foreign_tag {
                res.find(&["C06"], format!("{}/delivered-frame-of-foreign-context", path), json!({"scope": want, "frame": f, "options": detail}));
                return;
            }
        }
    };

    // (1) Store API: read_sync / read with option combinations, head
    for (c, _) in &ctxs {
        let ids = last_ids.get(c).cloned().unwrap_or_default();
        // last-id drawn from this and from OTHER contexts
        let all_ids: Vec<Scru128Id> = last_ids.values().flatten().cloned().collect();
        for _ in 0..6 {
            let last = match rng.below(3) {
                0 => None,
                1 if !ids.is_empty() => Some(*rng.pick(&ids)),
                _ => Some(*rng.pick(&all_ids)),
            };
            let limit = if rng.chance(400) { Some(1 + rng.below(5)) } else { None };
            let path = if rng.chance(500) { "read_sync" } else { "read" };
            let mut op = json!({"op": path, "ctx": c.to_string(), "wait_ms": 20000});
            if let Some(l) = last {
                op["last_id"] = json!(l.to_string());
            }
            if let Some(l) = limit {
                op["limit"] = json!(l);
            }
            let v = srv.call(op.clone())?;
            let fs = frames_of(&v["frames"]);
            observations += fs.len() as u64;
            check_scope(res, &format!("store-{}", path), *c, &fs, op);
        }
        for t in topics {
            let v = srv.call(json!({"op": "head", "topic": t, "ctx": c.to_string()}))?;
            if !v["frame"].is_null() {
                let f: Frame = serde_json::from_value(v["frame"].clone()).unwrap();
                observations += 1;
                check_scope(res, "store-head", *c, &[f], json!({"topic": t}));
            }
        }
    }
    // (2) followers (history + live, tail, heartbeat, limit)
    for (fid, c, opts) in &followers {
        let v = srv.call(json!({"op": "follow_poll", "fid": fid, "min": 0, "wait_ms": 0}))?;
        let fs = frames_of(&v["items"]);
        observations += fs.len() as u64;
        check_scope(res, "store-follow", *c, &fs, json!(opts));
        // sanity: the follower saw its own context's traffic
        if !fs.iter().any(|f| tag_of(f).as_deref() == Some(label[c])) {
            res.find(&["C06", "C03"], "store-follow/own-context-frames-not-delivered", json!({"scope": label[c], "options": opts, "received": fs.len()}));
        }
    }
    // (3) HTTP: GET /?context-id=, GET /head/{t}?context=
    let sock = srv.dir.join("sock");
    for (c, _) in &ctxs {
        for q in [format!("/?context-id={}", c), format!("/?context-id={}&limit=4", c)] {
            if let Ok(resp) = http::once(&sock, &Req::new("GET", &q), Duration::from_secs(20)) {
                let fs: Vec<Frame> = http::ndjson(&resp.body).into_iter().filter_map(|v| serde_json::from_value(v).ok()).collect();
                observations += fs.len() as u64;
                check_scope(res, "http-cat", *c, &fs, json!(q));
            }
        }
        // a scoped request with a malformed sibling option (or a malformed scope): refused, or still scoped - never
        // answered with other contexts' frames
        for bad in ["limit=all", "limit=-1", "limit=", "follow=maybe", "last-id=0", "tail=perhaps"] {
            let q = format!("/?context-id={}&{}", c, bad);
            if let Ok(resp) = http::once(&sock, &Req::new("GET", &q), Duration::from_secs(20)) {
                res.count("http_scoped_requests_with_a_malformed_option", 1);
                if resp.status == 200 {
                    let fs: Vec<Frame> = http::ndjson(&resp.body).into_iter().filter_map(|v| serde_json::from_value(v).ok()).collect();
                    observations += fs.len() as u64;
                    check_scope(res, "http-cat-malformed-sibling-option", *c, &fs, json!(q));
                }
            }
        }
        {
            let q = format!("/?context-id={}x", c);
            if let Ok(resp) = http::once(&sock, &Req::new("GET", &q), Duration::from_secs(20)) {
                if resp.status == 200 {
                    let fs: Vec<Frame> = http::ndjson(&resp.body).into_iter().filter_map(|v| serde_json::from_value(v).ok()).collect();
                    check_scope(res, "http-cat-malformed-context-id", *c, &fs, json!(q));
                }
            }
        }
        if let Ok(resp) = http::once(&sock, &Req::new("GET", &format!("/?context-id={}", c)).header("Accept", b"text/event-stream"), Duration::from_secs(20)) {
            let fs: Vec<Frame> = http::sse(&resp.body).into_iter().filter_map(|v| serde_json::from_value(v.1).ok()).collect();
            observations += fs.len() as u64;
            check_scope(res, "http-cat-sse", *c, &fs, json!("sse"));
        }
        for t in ["t", "ta"] {
            if let Ok(resp) = http::once(&sock, &Req::new("GET", &format!("/head/{}?context={}", t, c)), Duration::from_secs(20)) {
                if resp.status == 200 {
                    if let Ok(f) = serde_json::from_slice::<Frame>(&resp.body) {
                        observations += 1;
                        check_scope(res, "http-head", *c, &[f], json!({"topic": t}));
                    }
                }
            }
        }
    }
    // GET /head/{t}?follow&context=: the same topic appended in another context, then a sentinel in the
    // right one; the foreign frame must not precede the sentinel
    for (c, other) in [(b, a), (x, x1), (ZERO_CONTEXT, a)] {
        let target = format!("/head/t?follow=true&context={}", c);
        if let Ok(mut conn) = http::Conn::open(&sock) {
            let _ = conn.send(&Req::new("GET", &target).bytes());
            if let Ok((200, headers)) = conn.read_head(Duration::from_secs(10)) {
                srv.must_append("t", other, None, Some(json!({"ctx": label[&other], "i": "foreign-live"})), None)?;
                let sentinel = srv.must_append("t", c, None, Some(json!({"ctx": label[&c], "i": "sentinel"})), None)?;
                let sid = sentinel.id.to_string();
                let (body, _, _) = conn
                    .read_body(&headers, Duration::from_secs(5), |bd| http::ndjson(bd).iter().any(|v| v["id"].as_str() == Some(&sid)))
                    .unwrap_or((vec![], false, true));
                let fs: Vec<Frame> = http::ndjson(&body).into_iter().filter_map(|v| serde_json::from_value(v).ok()).collect();
                observations += fs.len() as u64;
                res.count("head_follow_streams", 1);
                check_scope(res, "http-head-follow", c, &fs, json!(target));
                if !fs.iter().any(|f| f.id == sentinel.id) {
                    res.find(&["C06", "C13"], "http-head-follow/own-context-frame-not-delivered", json!({"target": target, "received": fs.len()}));
                }
            }
        }
    }
    // the same when the followed topic has no head yet in the followed context (it exists only elsewhere, or
    // nowhere): the stream starts empty and must stay scoped
    for (k, (c, other)) in [(b, a), (x1, x), (a, ZERO_CONTEXT)].into_iter().enumerate() {
        let topic = format!("fresh{}", k);
        if k != 1 {
            // the topic already exists in the *other* context only
            srv.must_append(&topic, other, None, Some(json!({"ctx": label[&other], "i": "foreign-history"})), None)?;
        }
        let target = format!("/head/{}?follow=true&context={}", topic, c);
        if let Ok(mut conn) = http::Conn::open(&sock) {
            let _ = conn.send(&Req::new("GET", &target).bytes());
            if let Ok((200, headers)) = conn.read_head(Duration::from_secs(10)) {
                srv.must_append(&topic, other, None, Some(json!({"ctx": label[&other], "i": "foreign-live"})), None)?;
                let sentinel = srv.must_append(&topic, c, None, Some(json!({"ctx": label[&c], "i": "sentinel"})), None)?;
                let sid = sentinel.id.to_string();
                let (body, _, _) = conn
                    .read_body(&headers, Duration::from_secs(5), |bd| http::ndjson(bd).iter().any(|v| v["id"].as_str() == Some(&sid)))
                    .unwrap_or((vec![], false, true));
                let fs: Vec<Frame> = http::ndjson(&body).into_iter().filter_map(|v| serde_json::from_value(v).ok()).collect();
                observations += fs.len() as u64;
                res.count("head_follow_streams", 1);
                res.count("head_follow_streams_without_a_head", 1);
                check_scope(res, "http-head-follow-no-head-yet", c, &fs, json!(target));
                if !fs.iter().any(|f| f.id == sentinel.id) {
                    res.find(&["C06", "C13"], "http-head-follow-no-head-yet/own-context-frame-not-delivered", json!({"target": target, "received": fs.len()}));
                }
            }
        }
    }
    // the same through the command-line client: `xs head <topic> -f -c <ctx>` prints that context's head first
    if let Some(bin) = crate::session::self_exe().parent().map(|p| p.join("xs-real")).filter(|b| b.exists()) {
        use std::io::{BufRead, BufReader};
        for c in [a, b] {
            let mut child = match std::process::Command::new("timeout").arg("-k").arg("2").arg("20").arg(&bin).arg("head").arg(srv.dir.to_string_lossy().to_string()).arg("t").arg("-f").arg("-c").arg(c.to_string()).stdin(std::process::Stdio::null()).stdout(std::process::Stdio::piped()).stderr(std::process::Stdio::null()).spawn() {
                Ok(ch) => ch,
                Err(_) => continue,
            };
            let stdout = child.stdout.take().unwrap();
            let (tx, rx) = std::sync::mpsc::channel::<String>();
            std::thread::spawn(move || {
                for l in BufReader::new(stdout).lines().map_while(Result::ok) {
                    if tx.send(l).is_err() {
                        break;
                    }
                }
            });
            let mut fs: Vec<Frame> = vec![];
            if let Ok(l) = rx.recv_timeout(Duration::from_secs(10)) {
                if let Ok(f) = serde_json::from_str::<Frame>(&l) {
                    fs.push(f);
                }
            }
            // one live frame elsewhere, one in this context
            srv.must_append("t", ZERO_CONTEXT, None, Some(json!({"ctx": "zero", "i": "cli-foreign-live"})), None)?;
            let own = srv.must_append("t", c, None, Some(json!({"ctx": label[&c], "i": "cli-own-live"})), None)?;
            let t0 = std::time::Instant::now();
            while t0.elapsed() < Duration::from_secs(5) && !fs.iter().any(|f| f.id == own.id) {
                if let Ok(l) = rx.recv_timeout(Duration::from_millis(200)) {
                    if let Ok(f) = serde_json::from_str::<Frame>(&l) {
                        fs.push(f);
                    }
                }
            }
            let _ = child.kill();
            let _ = child.wait();
            observations += fs.len() as u64;
            res.count("cli_head_follow_streams", 1);
            check_scope(res, "cli-head-follow", c, &fs, json!({"command": "xs head t -f -c <ctx>"}));
            if !fs.iter().any(|f| f.id == own.id) {
                res.find(&["C06", "C13"], "cli-head-follow/own-context-frame-not-delivered", json!({"context": label[&c], "received": fs.len()}));
            }
        }
    }
    // only the explicit all-contexts read sees every context
    let v = srv.call(json!({"op": "read_sync"}))?;
    let all = frames_of(&v["frames"]);
    let labels_seen: BTreeSet<String> = all.iter().filter_map(tag_of).collect();
    if ctxs.iter().any(|(_, l)| !labels_seen.contains(*l)) {
        res.find(&["C06", "C01"], "all-contexts-read-misses-a-context", json!({"seen": labels_seen}));
    }
    // (4) handlers: dispatch and script-level visibility
    let outs: Vec<&Frame> = log.iter().filter(|f| f.topic == "iso.out").collect();
    for o in &outs {
        let trig = meta_str(o, "frame_id").unwrap_or("");
        let trig_frame = log.iter().find(|f| f.id.to_string() == trig);
        if let Some(tf) = trig_frame {
            if tf.context_id != o.context_id {
                res.find(&["C06", "C14"], "handler/triggered-by-frame-of-another-context", json!({"output": o, "trigger": tf}));
            }
        }
        let own = label.get(&o.context_id).copied().unwrap_or("?");
        let other = if own == "A" { "B" } else { "A" };
        let c = srv.content_str(o)?;
        let v: Value = c.as_deref().and_then(|s| serde_json::from_str(s).ok()).unwrap_or(Value::Null);
        observations += 1;
        for key in ["cat", "cat_limited"] {
            let tags: Vec<String> = v[key].as_array().cloned().unwrap_or_default().iter().filter_map(|x| x.as_str().map(|s| s.to_string())).collect();
            if let Some(t) = tags.iter().find(|t| t.as_str() != own && t.as_str() != "none" && !t.starts_with("from-")) {
                res.find(&["C06"], "handler-script/.cat-shows-frames-of-another-context", json!({"handler_context": own, "foreign_tag": t, "tags": tags, "which": key}));
            }
            if key == "cat" && !tags.iter().any(|t| t == own) {
                res.find(&["C06"], "handler-script/.cat-does-not-show-own-context", json!({"handler_context": own, "tags": tags}));
            }
        }
        if v["head_own"].as_str() != Some(own) {
            res.find(&["C06"], "handler-script/.head-returns-frame-of-another-context", json!({"handler_context": own, "head_own": v["head_own"]}));
        }
        if v["head_named"].as_str() != Some(other) {
            res.find(&["C06"], "handler-script/.head-with-explicit-context-ignored", json!({"handler_context": own, "head_named": v["head_named"], "expected": other}));
        }
        let want_elsewhere: Vec<&str> = if own == "A" { vec!["none", "A", "none"] } else { vec!["none", "none", "B"] };
        let got_elsewhere: Vec<String> = v["head_elsewhere"].as_array().cloned().unwrap_or_default().iter().map(|x| x.as_str().unwrap_or("none").to_string()).collect();
        observations += 3;
        if got_elsewhere != want_elsewhere {
            res.find(&["C06"], "handler-script/.head-of-a-topic-that-exists-only-in-another-context", json!({"handler_context": own, "topics": ["only-zero", "only-A", "only-B"], "got": got_elsewhere, "want": want_elsewhere}));
        }
    }
    // exactly the handler of the trigger's context answered each "go"
    for (g, c) in [(&go, a), (&go_b, b)] {
        let gid = g.id.to_string();
        let answering: Vec<&&Frame> = outs.iter().filter(|o| meta_str(o, "frame_id") == Some(&gid)).collect();
        if answering.iter().any(|o| o.context_id != c) || answering.len() != 1 {
            res.find(&["C06"], "handler/wrong-set-of-handlers-answered-a-trigger", json!({"trigger": g, "answers": answering}));
        }
    }
    // handler output lands in the handler's own context whatever the script asked for
    for f in log.iter().filter(|f| f.topic == "forced") {
        let hid = meta_str(f, "handler_id").unwrap_or("");
        let reg = log.iter().find(|r| r.id.to_string() == hid);
        if let Some(r) = reg {
            observations += 1;
            if f.context_id != r.context_id {
                res.find(&["C06", "C15"], "handler-output/landed-in-the-context-the-script-asked-for", json!({"frame": f, "handler_context": label.get(&r.context_id)}));
            }
        }
    }
    // (5) command outputs land in the calling context; script visibility
    for f in log.iter().filter(|f| (f.topic.starts_with("isoc.") && f.topic != "isoc.define" && f.topic != "isoc.call") || f.topic == "cmdside") {
        observations += 1;
        if meta_str(f, "frame_id") == Some(&callid) && f.context_id != call.context_id {
            res.find(&["C06", "C19"], "command-output/outside-the-calling-context", json!({"frame": f}));
        }
    }
    for r in log.iter().filter(|f| f.topic == "isoc.recv") {
        let c = srv.content_str(r)?;
        let v: Value = c.as_deref().and_then(|s| serde_json::from_str(s).ok()).unwrap_or(Value::Null);
        let tags: Vec<String> = v["cat"].as_array().cloned().unwrap_or_default().iter().filter_map(|x| x.as_str().map(|s| s.to_string())).collect();
        if let Some(t) = tags.iter().find(|t| t.as_str() != "A" && t.as_str() != "none" && !t.starts_with("from-")) {
            res.find(&["C06"], "command-script/.cat-shows-frames-of-another-context", json!({"foreign_tag": t, "tags": tags}));
        }
        if v["head_own"].as_str() != Some("A") || v["head_named"].as_str() != Some("B") {
            res.find(&["C06"], "command-script/.head-context-wrong", json!({"content": v}));
        }
        let got_elsewhere: Vec<String> = v["head_elsewhere"].as_array().cloned().unwrap_or_default().iter().map(|x| x.as_str().unwrap_or("none").to_string()).collect();
        if got_elsewhere != ["none", "A", "none"] {
            res.find(&["C06"], "command-script/.head-of-a-topic-that-exists-only-in-another-context", json!({"got": got_elsewhere}));
        }
    }
    // (6) generator frames live in the spawn's context
    for f in log.iter().filter(|f| f.topic.starts_with("gen.") && f.topic != "gen.spawn") {
        observations += 1;
        if f.context_id != a {
            res.find(&["C06", "C18"], "generator-output/outside-the-spawn-context", json!({"frame": f}));
        }
    }
    // (7) the same script deployed as a command in two contexts (byte-identical definitions), called before and
    // after a restart of the server: each sees its own context only
    let n_handler_reports = outs.len();
    {
        const SAME: &str = "{run: {|frame| [{cat: (.cat | each {|f| $f.meta?.ctx? | default \"none\"} | uniq), head: (.head t | get meta?.ctx? | default \"none\")}] | each {|x| $x}}}";
        srv.must_append("samea.define", a, Some(SAME.as_bytes()), None, None)?;
        srv.must_append("sameb.define", b, Some(SAME.as_bytes()), None, None)?;
        srv.settle(Duration::from_millis(150), Duration::from_secs(5))?;
        for round in 0..2 {
            if round == 1 {
                srv.restart(rng.chance(500))?;
                srv.settle(Duration::from_millis(400), Duration::from_secs(10))?;
            }
            for (name, c, own) in [("samea", a, "A"), ("sameb", b, "B")] {
                let call = srv.must_append(&format!("{}.call", name), c, None, Some(json!({"ctx": own})), None)?;
                let cid = call.id.to_string();
                let done = srv.wait(Duration::from_secs(30), |log| log.iter().any(|f| (f.topic == format!("{}.complete", name) || f.topic == format!("{}.error", name)) && meta_str(f, "frame_id") == Some(&cid)))?;
                if !done {
                    res.inconclusive = Some(format!("command {} did not answer within 30 s (round {})", name, round));
                    return Ok(());
                }
                let recv: Option<Frame> = srv.era_log().iter().find(|f| f.topic == format!("{}.recv", name) && meta_str(f, "frame_id") == Some(&cid)).cloned();
                if let Some(r) = recv {
                    let cnt = srv.content_str(&r)?;
                    let v: Value = cnt.as_deref().and_then(|s| serde_json::from_str(s).ok()).unwrap_or(Value::Null);
                    let tags: Vec<String> = v["cat"].as_array().cloned().unwrap_or_default().iter().filter_map(|x| x.as_str().map(|s| s.to_string())).collect();
                    observations += tags.len() as u64 + 1;
                    res.count("same_script_commands_checked", 1);
                    let foreign = tags.iter().find(|t| t.as_str() != own && t.as_str() != "none" && !t.starts_with("from-"));
                    let head = v["head"].as_str().unwrap_or("none");
                    if foreign.is_some() || (head != own && head != "none") || !tags.iter().any(|t| t == own) {
                        res.find(&["C06"], if round == 1 { "command-script/same-script-in-two-contexts-reads-the-other-context-after-restart" } else { "command-script/same-script-in-two-contexts-reads-the-other-context" }, json!({"command": name, "context": own, "cat_tags": tags, "head": head}));
                    }
                    if r.context_id != c {
                        res.find(&["C06", "C19"], "command-output/outside-the-callers-context", json!({"frame": r}));
                    }
                } else {
                    res.find(&["C06", "C19"], "command-script/same-script-command-did-not-answer", json!({"command": name, "round": round}));
                }
            }
        }
    }
    res.count("scoped_observations_checked", observations);
    res.count("handler_script_reports", n_handler_reports as u64);
    res.nontrivial = observations > 50 && n_handler_reports >= 2;
    res.hash = fnv(&format!("{}-{}", seed, n));
    if res.sample.is_none() {
        res.sample = Some(json!({"contexts": ctxs.iter().map(|(c, l)| json!([l, c.to_string()])).collect::<Vec<_>>(), "follower_options": followers.iter().map(|f| f.2.clone()).collect::<Vec<_>>(), "handler_reports": n_handler_reports, "observations": observations}));
    }
    Ok(())
}
