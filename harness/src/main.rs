mod cas;
mod checks_e1;
mod checks_e2;
mod e1;
mod e2;
mod e2h;
mod e3;
mod e4;
mod e5;
mod c06;
mod c10;
mod c14;
mod c15;
mod c16;
mod c17;
mod c18;
mod c19;
mod c20;
mod checks_e5;
mod http;
mod checks_e4;
mod e6;
mod gen;
mod model;
mod par;
mod report;
mod rng;
mod session;
mod tsan;

fn usage() -> ! {
    eprintln!("usage: xsmon check <Cxx> [quick|thorough] | xsmon session <dir> [--serve]");
    std::process::exit(2);
}

fn main() {
    let args: Vec<String> = std::env::args().collect();
    if args.len() < 2 {
        usage();
    }
    match args[1].as_str() {
        "session" => {
            let dir = std::path::PathBuf::from(args.get(2).unwrap_or_else(|| usage()));
            let serve = args.iter().any(|a| a == "--serve");
            session::child_main(dir, serve);
        }
        "recover-dump" => {
            let dir = std::path::PathBuf::from(args.get(2).unwrap_or_else(|| usage()));
            e3::recover_dump_main(dir);
        }
        "e2" => {
            let mode = args.get(2).unwrap_or_else(|| usage()).clone();
            let seed: u64 = args.get(3).and_then(|s| s.parse().ok()).unwrap_or(1);
            let first: u64 = args.get(4).and_then(|s| s.parse().ok()).unwrap_or(0);
            let count: u64 = args.get(5).and_then(|s| s.parse().ok()).unwrap_or(1);
            e2::worker_main(&mode, seed, first, count);
        }
        "e2-round" => {
            let mode = args.get(2).unwrap_or_else(|| usage()).clone();
            let seed: u64 = args.get(3).and_then(|s| s.parse().ok()).unwrap_or(1);
            e2::round_main(&mode, seed);
        }
        "replay" => {
            let path = args.get(2).unwrap_or_else(|| usage()).clone();
            std::process::exit(replay(&path));
        }
        "check" => {
            let prop = args.get(2).unwrap_or_else(|| usage()).clone();
            let tier = report::tier_from_env(args.get(3).map(|s| s.as_str()));
            let seed = report::seed_from_env();
            let code = match prop.as_str() {
                "C01" => checks_e1::run("C01", &tier, seed),
                "C05" => checks_e1::run("C05", &tier, seed),
                "C07" => checks_e1::run("C07", &tier, seed),
                "C08" => checks_e1::run("C08", &tier, seed),
                "C09" => checks_e1::run("C09", &tier, seed),
                "C12" => e6::run(&tier, seed),
                "C04" => e3::run(&tier, seed),
                "C13" => checks_e4::run("C13", &tier, seed),
                "C20" => checks_e5::run(
                    checks_e5::Plan {
                        prop: "C20",
                        level: "exploration",
                        rule: "source stores produced by E1 histories (several contexts incl. registrations that arrived by import, forever / head:K / time TTLs, removed frames, re-imports, content shared between frames, a reopen); export = all-contexts read + CAS reads; import into an empty store behind the real HTTP API through POST /cas + POST /import in a seeded permutation with ~20 % duplicates, in half of the cases with every context registration imported after the frames of its context; oracle: the complete observation sweep (both read paths over all and per context, get of every id, heads over the (topic x context) pools, raw three-partition contents, CAS bytes, hash returned by POST /cas) is equal on source and target, re-importing a frame leaves the raw partitions unchanged, a NUL-topic frame is rejected without trace, and a probe append into every context id is accepted by both stores or by neither; non-trivial = source with >=5 frames, >=2 contexts and a removed frame; distinct by source op-trace hash",
                        quick: 48,
                        thorough: 3000,
                        par: 12,
                        assumptions: vec!["source and target run under the same virtual clock", "the server's own xs.start frame is removed from the target before importing (it is not part of the export)"],
                        required: vec!["source_frames", "observations_compared", "idempotence_checks"],
                    },
                    &tier,
                    seed,
                    |s, _| c20::run_case(s),
                ),
                "C10" => checks_e5::run(
                    checks_e5::Plan {
                        prop: "C10",
                        level: "exploration",
                        rule: "four kinds of cases on a real serve process. matrix: byte strings {empty, 1 B, non-UTF-8, 8191, 8192, 8193, 65537, random, sometimes 1 MiB} through cas_insert_sync, cas_insert, cas_writer_sync and cas_writer (several chunk sizes) in a seeded order, the first writer's content read back at once, POST /cas, POST /{topic} single and chunked; texts through .append (string / binary / record) and the return value of a command, a handler return value and generator output; every reported hash must equal a SHA-256 the harness computes itself over the documented rendering, content is read back byte for byte through the Store API and GET /cas, and the same hashes give the same bytes after a restart. race: 2-6 HTTP writers posting unique bodies (10 B - 70 kB, some chunked) with jitter at the append sync points while three followers and a handler read the content of every frame the moment it is delivered. kill: four writers posting chunked bodies, SIGKILL after 20-420 ms, reopen, every visible frame with a hash must have matching content. first: on a fresh store a script entry point (generator output, .append in a command or handler, command output) is the first writer of the empty byte string and of a unique text; every frame with a hash must have its content in CAS, before and after a restart; distinct by (mode, seed); every case non-trivial unless it observed nothing",
                        quick: 24,
                        thorough: 600,
                        par: 12,
                        assumptions: vec!["expected hashes come from the sha2 crate, not from ssri/cacache", "content durability against power loss is not claimed by the property and not tested"],
                        required: vec!["entry_point_writes_checked", "immediate_content_reads", "frames_checked_after_kill"],
                    },
                    &tier,
                    seed,
                    |s, i| c10::run_case(s, i),
                ),
                "C06" => checks_e5::run(
                    checks_e5::Plan {
                        prop: "C06",
                        level: "exploration",
                        rule: "cases on a real serve process with seven contexts (zero, two appended, and two pairs of numerically adjacent ids registered by import whose increment carries over one and over two bytes: ..FF/..00 and ..FFFF/..0000); the same topics are written in every context and every frame carries a tag naming its context; access paths observed per context: Store read_sync/read with last-id (own and foreign ids) and limit, head, five followers (plain, tail, heartbeat, limit) covering history and live delivery, HTTP GET /?context-id= (NDJSON and SSE, with limit), GET /head/{t}?context= with and without follow, handlers with the same name in two contexts (dispatch, .cat / .cat --limit / .head / .head --context inside the script, an explicit .append --context <other>), a command (outputs, .cat/.head inside), a generator; any frame whose tag or context differs from the scope is a violation; non-trivial = case with >50 scoped observations and both handlers reporting; distinct by seed",
                        quick: 24,
                        thorough: 720,
                        par: 12,
                        assumptions: vec!["commands are defined and called in the same context (the statement does not say whose context a cross-context call's .cat sees)"],
                        required: vec!["scoped_observations_checked", "handler_script_reports", "head_follow_streams"],
                    },
                    &tier,
                    seed,
                    |s, _| c06::run_case(s),
                ),
                "C17" => checks_e5::run(
                    checks_e5::Plan {
                        prop: "C17",
                        level: "exploration",
                        rule: "histories of 10-21 events over handler names {h1,h2}, generator names {g1,g2}, command names {c1,c2} reused across 3 contexts: register / replace / unregister / failing trigger / invalid register, spawn / spawn without content / spawn for a running name, define / redefine / invalid define / call; then 1-2 restarts of the real serve process (SIGKILL 70 %, clean 30 %); before and after each restart one probe per context (a trigger, a call per command name, a 1.5 s window for generator starts) and the sets of answering (context, name, id) must be equal; no frame written after the restart may answer a pre-restart trigger or call; non-trivial = case in which something answered; distinct by event sequence",
                        quick: 32,
                        thorough: 480,
                        par: 16,
                        assumptions: vec!["the oracle is the differential across the restart (plus the absence of re-executed historical triggers); handlers that resume from history are not generated", "generator activity is observed in a 1.5 s window (1 s respawn delay)"],
                        required: vec!["restarts", "probe_answers_compared", "restarts.binary_sigkill"],
                    },
                    &tier,
                    seed,
                    |s, i| if i % 8 == 7 { c17::run_binary_case(s) } else { c17::run_case(s) },
                ),
                "C18" => checks_e5::run(
                    checks_e5::Plan {
                        prop: "C18",
                        level: "exploration",
                        rule: "cases on a real serve process: 4-7 generators over 2 contexts with string-producing expressions (single value, list stream of 1-4, empty stream, lazy stream with sleeps, unicode and empty strings), observed for >=3 lifecycles each (1 s respawn delay); a spawn without content and a spawn for a running name; 1-2 duplex generators (lines | each echo) fed 3-7 newline-terminated unique tokens interleaved with other names' sends, ordinary frames and a contentless send; trace spec per spawn id: (start recv* stop)* with recv contents equal to the produced strings in order, source_id and context on every frame, a new start after each stop, exactly one spawn.error per refused spawn, each token echoed exactly once in order; non-trivial = case with >=4 complete lifecycles checked; distinct by the set of expressions",
                        quick: 16,
                        thorough: 360,
                        par: 16,
                        assumptions: vec!["only string-producing expressions (the property's quantifier)", "duplex input is a byte stream without framing: tokens are newline-terminated and the oracle is per line", "same-name sends in other contexts are not generated (the statement does not say which way they go)"],
                        required: vec!["lifecycles_checked", "duplex_tokens_checked", "refused_spawns_checked", "duplex_second_lifecycles"],
                    },
                    &tier,
                    seed,
                    |s, i| c18::run_case_idx(s, i),
                ),
                "C19" => checks_e5::run(
                    checks_e5::Plan {
                        prop: "C19",
                        level: "exploration",
                        rule: "event sequences over 2 command names x 2 contexts on a real serve process: define (generated scripts: 0-4 output records, sleeps, explicit .append, eager or mid-stream failure, custom suffix/ttl), invalid definitions, redefinitions, single calls and bursts of 4-8 overlapping calls, each call carrying a unique argument that every output embeds; per call: results in order with the call's own argument, the tag of the definition in force, the initial environment (isolation probe), exactly one terminal event and nothing after it, stamps command_id/frame_id, caller's context, configured suffix/ttl; invalid definition => exactly one error naming it; non-trivial = case with >=3 checked calls; distinct by event sequence",
                        quick: 64,
                        thorough: 2000,
                        par: 12,
                        assumptions: vec!["a definition is in force once the serve loop has processed it: the driver waits for quiescence after each define before calling", "for failures inside a lazy stream only 'exactly one terminal event, nothing after it' is asserted"],
                        required: vec!["calls_checked", "overlapping_call_bursts", "identical_redefinitions"],
                    },
                    &tier,
                    seed,
                    |s, _| c19::run_case(s),
                ),
                "C16" => checks_e5::run(
                    checks_e5::Plan {
                        prop: "C16",
                        level: "exploration",
                        rule: "event sequences (8-15 events) over 2 names x 2 contexts on a real serve process: register, re-register (replace), register with an invalid script, unregister, failing trigger, triggers and trigger bursts; after every successful register the client appends two triggers the moment it sees .registered, while a hook delays the handler task before it subscribes by 0/5/20 ms; lifecycle automaton over the global log per (context, name): one start outcome per register, every stop announced by exactly one .unregistered naming the stop frame (and the error), triggers inside an instance's announced interval answered exactly once by it, never by a stopped or a second instance; non-trivial = case with >=3 instances and >=2 answered triggers; distinct by event sequence",
                        quick: 64,
                        thorough: 1500,
                        par: 12,
                        assumptions: vec!["the serve_start delay hook sleeps on the handler's own task only (equivalent to that task being descheduled)", "absence of an answer is decided after a later-registered canary handler in the same context answered a final trigger plus a quiet period"],
                        required: vec!["handler_instances_checked", "triggers_right_after_registered"],
                    },
                    &tier,
                    seed,
                    |s, _| c16::run_case(s),
                ),
                "C15" => checks_e5::run(
                    checks_e5::Plan {
                        prop: "C15",
                        level: "exploration",
                        rule: "generated handler programs: 0-4 explicit .append statements (with/without --meta incl. keys that collide with the stamps, --ttl of every kind, --context own/other/zero), return value in {nothing,string,int,float,bool,list,record}, return_options suffix/ttl present or not, failure (error make / missing column / non-record --meta) before, between or after the appends or none; three triggers per handler with unrelated traffic and a canary handler proving the triggers were processed; per trigger: frames appear exactly in the order [appends.., return frame], stamped handler_id/frame_id, user meta preserved, handler's context, scripted TTLs, CAS content equal to the scripted rendering; on failure none of them, exactly one .unregistered carrying the error, nothing afterwards; non-trivial = program with an append, a return value or a failure; distinct by program text",
                        quick: 64,
                        thorough: 2000,
                        par: 12,
                        assumptions: vec!["absence of output is decided after a canary handler in the same context answered the last trigger plus a 200 ms quiet period", "return values of binary type are not generated (their JSON rendering is null by construction)"],
                        required: vec!["handler_output_frames_checked"],
                    },
                    &tier,
                    seed,
                    |s, _| c15::run_case(s),
                ),
                "C14" => checks_e5::run(
                    checks_e5::Plan {
                        prop: "C14",
                        level: "exploration",
                        rule: "cases on a real serve process: pre-existing history (incl. an earlier instance of the same handler name with its registration traffic and outputs), resume in {head, tail, after-id}, bursts of 10-300 frames from 1-6 concurrent writers while the closure sleeps, foreign-context noise, ephemeral frames, a second handler whose outputs the first must see, optional pulse; the instrumented closure returns {seen: frame.id, n: $env.n, cfg: $env.CFG}; the list of meta.frame_id over its outputs must equal the frames of its context after the resume point (own outputs and old registration traffic excluded) exactly once and in order, n must count 1,2,3.. and cfg must be visible; non-trivial = case with >=10 checked invocations that reached its sentinel; distinct by case shape",
                        quick: 32,
                        thorough: 900,
                        par: 8,
                        assumptions: vec!["the monitor follower (all contexts, from the beginning, drained eagerly) records the global frame log; C02/C03 are assumed for it and checked separately", "bursts stay below the 1024+100 frame buffers (beyond that the stream legitimately ends, C11)"],
                        required: vec!["handler_invocations_checked"],
                    },
                    &tier,
                    seed,
                    |s, _| c14::run_case(s),
                ),
                "C02" => checks_e2::run("C02", &tier, seed),
                "C03" => checks_e2::run("C03", &tier, seed),
                "C11" => checks_e2::run("C11", &tier, seed),
                _ => {
                    eprintln!("no check for {}", prop);
                    2
                }
            };
            std::process::exit(code);
        }
        _ => usage(),
    }
}


/// re-execute the single case a saved witness came from (same generator seed; ids and timing differ run to run)
fn replay(path: &str) -> i32 {
    let v: serde_json::Value = match std::fs::read(path).ok().and_then(|b| serde_json::from_slice(&b).ok()) {
        Some(v) => v,
        None => {
            eprintln!("cannot read witness {}", path);
            return 2;
        }
    };
    let prop = v["property"].as_str().unwrap_or("").to_string();
    let want_sig = v["signature"].as_str().unwrap_or("").to_string();
    let d = &v["detail"];
    let u = |k: &str| d[k].as_u64().or_else(|| d[k].as_str().and_then(|s| s.parse().ok()));
    let mut found: Vec<String> = vec![];
    match d["engine"].as_str().unwrap_or("") {
        "E1" if prop == "C20" => found = c20::run_case(u("case_seed").unwrap_or(1)).findings.into_iter().map(|f| f.signature).collect(),
        "E1" => {
            let r = e1::run_history(e1::profile(d["profile"].as_str().unwrap_or("c01")), u("case_seed").unwrap_or(1));
            found = r.findings.into_iter().filter(|f| f.props.iter().any(|p| *p == prop)).map(|f| f.signature).collect();
        }
        "E2" if d["mode"] == "c02-http" => {
            let r = e2h::http_round(u("round_seed").unwrap_or(1));
            found = r["violations"].as_array().cloned().unwrap_or_default().iter().filter_map(|x| x["signature"].as_str().map(|s| s.to_string())).collect();
        }
        "E2" => {
            let out = std::process::Command::new(session::self_exe()).arg("e2-round").arg(d["mode"].as_str().unwrap_or("c02")).arg(u("round_seed").unwrap_or(1).to_string()).output();
            if let Ok(o) = out {
                if let Some(r) = String::from_utf8_lossy(&o.stdout).lines().filter_map(|l| serde_json::from_str::<serde_json::Value>(l).ok()).last() {
                    found = r["violations"].as_array().cloned().unwrap_or_default().iter().filter_map(|x| x["signature"].as_str().map(|s| s.to_string())).collect();
                }
            }
        }
        "E3" => {
            let hs = d["finding"]["history_seed"].as_u64().unwrap_or(1);
            let thorough = v["tier"] == "thorough";
            let o = e3::run_history(hs, if thorough { 25 } else { 15 }, if thorough { 60 } else { 30 }, if thorough { 48 } else { 10 }, if thorough { 100_000 } else { 260 }, false);
            found = o.findings.into_iter().map(|f| f.signature).collect();
        }
        "E4" => {
            let r = e4::run_sequence(u("sequence_seed").unwrap_or(1), if v["tier"] == "thorough" { 150 } else { 100 });
            found = r.findings.into_iter().filter(|f| f.props.iter().any(|p| *p == prop)).map(|f| f.signature).collect();
        }
        "E5" => {
            let s = u("case_seed").unwrap_or(1);
            let idx = u("case_index").unwrap_or(0) as usize;
            let r = match prop.as_str() {
                "C06" => c06::run_case(s),
                "C10" => c10::run_case(s, idx),
                "C14" => c14::run_case(s),
                "C15" => c15::run_case(s),
                "C16" => c16::run_case(s),
                "C17" => c17::run_case(s),
                "C18" => c18::run_case_idx(s, idx),
                "C19" => c19::run_case(s),
                "C20" => c20::run_case(s),
                _ => Default::default(),
            };
            found = r.findings.into_iter().filter(|f| f.props.iter().any(|p| *p == prop)).map(|f| f.signature).collect();
        }
        _ => {
            eprintln!("this witness comes from a deterministic generator: re-run `./run {} {}` with VERIF_SEED={}", prop, v["tier"].as_str().unwrap_or("quick"), v["seed"]);
            return 2;
        }
    }
    found.sort();
    found.dedup();
    let want_tail = want_sig.splitn(2, '/').nth(1).unwrap_or(&want_sig).to_string();
    println!("replayed case of {}: {} finding(s)", prop, found.len());
    for f in &found {
        println!("  signature: {}/{}", prop, f);
    }
    if found.iter().any(|f| *f == want_tail) {
        println!("VIOLATION property={} replay={}", prop, path);
        1
    } else {
        println!("the saved signature {} was not reproduced by this re-execution (schedules and ids differ between runs)", want_sig);
        0
    }
}
