mod cas;
mod checks_e1;
mod checks_e2;
mod e1;
mod e2;
mod e4;
mod e5;
mod c14;
mod checks_e5;
mod http;
mod checks_e4;
mod e6;
mod gen;
mod model;
mod par;
mod report;
mod rng;
mod session;

fn usage() -> ! {
    eprintln!("usage: xsmon check <Cxx> [quick|thorough] | xsmon session <dir> [--serve]");
    std::process::exit(2);
}

fn main() {
    let args: Vec<String> = std::env::args().collect();
    if args.len() < 2 {
        usage();
    }
    match args[1].as_str() {
        "session" => {
            let dir = std::path::PathBuf::from(args.get(2).unwrap_or_else(|| usage()));
            let serve = args.iter().any(|a| a == "--serve");
            session::child_main(dir, serve);
        }
        "e2" => {
            let mode = args.get(2).unwrap_or_else(|| usage()).clone();
            let seed: u64 = args.get(3).and_then(|s| s.parse().ok()).unwrap_or(1);
            let first: u64 = args.get(4).and_then(|s| s.parse().ok()).unwrap_or(0);
            let count: u64 = args.get(5).and_then(|s| s.parse().ok()).unwrap_or(1);
            e2::worker_main(&mode, seed, first, count);
        }
        "check" => {
            let prop = args.get(2).unwrap_or_else(|| usage()).clone();
            let tier = report::tier_from_env(args.get(3).map(|s| s.as_str()));
            let seed = report::seed_from_env();
            let code = match prop.as_str() {
                "C01" => checks_e1::run("C01", &tier, seed),
                "C05" => checks_e1::run("C05", &tier, seed),
                "C07" => checks_e1::run("C07", &tier, seed),
                "C08" => checks_e1::run("C08", &tier, seed),
                "C09" => checks_e1::run("C09", &tier, seed),
                "C12" => e6::run(&tier, seed),
                "C13" => checks_e4::run("C13", &tier, seed),
                "C14" => checks_e5::run(
                    checks_e5::Plan {
                        prop: "C14",
                        level: "exploration",
                        rule: "cases on a real serve process: pre-existing history (incl. an earlier instance of the same handler name with its registration traffic and outputs), resume in {head, tail, after-id}, bursts of 10-300 frames from 1-6 concurrent writers while the closure sleeps, foreign-context noise, ephemeral frames, a second handler whose outputs the first must see, optional pulse; the instrumented closure returns {seen: frame.id, n: $env.n, cfg: $env.CFG}; the list of meta.frame_id over its outputs must equal the frames of its context after the resume point (own outputs and old registration traffic excluded) exactly once and in order, n must count 1,2,3.. and cfg must be visible; non-trivial = case with >=10 checked invocations that reached its sentinel; distinct by case shape",
                        quick: 32,
                        thorough: 300,
                        par: 8,
                        assumptions: vec!["the monitor follower (all contexts, from the beginning, drained eagerly) records the global frame log; C02/C03 are assumed for it and checked separately", "bursts stay below the 1024+100 frame buffers (beyond that the stream legitimately ends, C11)"],
                        required: vec!["handler_invocations_checked"],
                    },
                    &tier,
                    seed,
                    |s, _| c14::run_case(s),
                ),
                "C02" => checks_e2::run("C02", &tier, seed),
                "C03" => checks_e2::run("C03", &tier, seed),
                "C11" => checks_e2::run("C11", &tier, seed),
                _ => {
                    eprintln!("no check for {}", prop);
                    2
                }
            };
            std::process::exit(code);
        }
        _ => usage(),
    }
}
