//! Minimal raw HTTP/1.1 client over a Unix socket (no hyper on the client side, so that
//! malformed requests can be sent and half-responses seen).

use std::io::{Read, Write};
use std::os::unix::net::UnixStream;
use std::path::Path;
use std::time::{Duration, Instant};

#[derive(Debug, Clone)]
pub struct Resp {
    pub status: u16,
    pub headers: Vec<(String, String)>,
    pub body: Vec<u8>,
    /// the body was read to its end (Content-Length reached, last chunk seen, or connection closed for close-delimited bodies)
    pub complete: bool,
    pub chunked: bool,
}

#[derive(Debug)]
pub enum HttpErr {
    /// connection closed (or reset) before a complete response head arrived
    Dropped(String),
    Timeout(String),
    Io(String),
}

impl std::fmt::Display for HttpErr {
    fn fmt(&self, f: &mut std::fmt::Formatter) -> std::fmt::Result {
        match self {
            HttpErr::Dropped(s) => write!(f, "connection dropped: {}", s),
            HttpErr::Timeout(s) => write!(f, "timeout: {}", s),
            HttpErr::Io(s) => write!(f, "io: {}", s),
        }
    }
}

pub struct Conn {
    s: UnixStream,
    buf: Vec<u8>,
}

impl Conn {
    pub fn open(sock: &Path) -> Result<Conn, HttpErr> {
        let s = UnixStream::connect(sock).map_err(|e| HttpErr::Io(format!("connect: {}", e)))?;
        Ok(Conn { s, buf: vec![] })
    }

    pub fn send(&mut self, raw: &[u8]) -> Result<(), HttpErr> {
        self.s.write_all(raw).map_err(|e| HttpErr::Io(format!("write: {}", e)))
    }

    pub fn shutdown_write(&mut self) {
        let _ = self.s.shutdown(std::net::Shutdown::Write);
    }

    fn fill(&mut self, deadline: Instant) -> Result<usize, HttpErr> {
        let now = Instant::now();
        if now >= deadline {
            return Err(HttpErr::Timeout("deadline".into()));
        }
        let _ = self.s.set_read_timeout(Some((deadline - now).max(Duration::from_millis(1))));
        let mut tmp = [0u8; 16384];
        match self.s.read(&mut tmp) {
            Ok(0) => Ok(0),
            Ok(n) => {
                self.buf.extend_from_slice(&tmp[..n]);
                Ok(n)
            }
            Err(e) if e.kind() == std::io::ErrorKind::WouldBlock || e.kind() == std::io::ErrorKind::TimedOut => Err(HttpErr::Timeout("read".into())),
            Err(e) if e.kind() == std::io::ErrorKind::ConnectionReset => Ok(0),
            Err(e) => Err(HttpErr::Io(format!("read: {}", e))),
        }
    }

    /// status line + headers
    pub fn read_head(&mut self, timeout: Duration) -> Result<(u16, Vec<(String, String)>), HttpErr> {
        let deadline = Instant::now() + timeout;
        loop {
            if let Some(pos) = find(&self.buf, b"\r\n\r\n") {
                let head = String::from_utf8_lossy(&self.buf[..pos]).to_string();
                self.buf.drain(..pos + 4);
                let mut lines = head.split("\r\n");
                let status_line = lines.next().unwrap_or("");
                let status: u16 = status_line.split(' ').nth(1).and_then(|s| s.parse().ok()).ok_or_else(|| HttpErr::Io(format!("bad status line {:?}", status_line)))?;
                let headers = lines
                    .filter_map(|l| l.split_once(':').map(|(k, v)| (k.trim().to_ascii_lowercase(), v.trim().to_string())))
                    .collect();
                return Ok((status, headers));
            }
            match self.fill(deadline) {
                Ok(0) => return Err(HttpErr::Dropped(format!("eof after {} bytes of response head", self.buf.len()))),
                Ok(_) => {}
                Err(e) => return Err(e),
            }
        }
    }

    /// read the body according to the headers; `stop` may end a streaming body early
    pub fn read_body(
        &mut self,
        headers: &[(String, String)],
        timeout: Duration,
        mut stop: impl FnMut(&[u8]) -> bool,
    ) -> Result<(Vec<u8>, bool, bool), HttpErr> {
        let deadline = Instant::now() + timeout;
        let h = |k: &str| headers.iter().find(|(n, _)| n == k).map(|(_, v)| v.clone());
        let chunked = h("transfer-encoding").map(|v| v.to_ascii_lowercase().contains("chunked")).unwrap_or(false);
        let mut body = vec![];
        if chunked {
            loop {
                // chunk size line
                let pos = loop {
                    if let Some(p) = find(&self.buf, b"\r\n") {
                        break p;
                    }
                    match self.fill(deadline) {
                        Ok(0) => return Ok((body, false, true)),
                        Ok(_) => {}
                        Err(HttpErr::Timeout(_)) => return Ok((body, false, true)),
                        Err(e) => return Err(e),
                    }
                };
                let line = String::from_utf8_lossy(&self.buf[..pos]).to_string();
                let size = usize::from_str_radix(line.split(';').next().unwrap_or("").trim(), 16).map_err(|_| HttpErr::Io(format!("bad chunk size {:?}", line)))?;
                self.buf.drain(..pos + 2);
                while self.buf.len() < size + 2 {
                    match self.fill(deadline) {
                        Ok(0) => return Ok((body, false, true)),
                        Ok(_) => {}
                        Err(HttpErr::Timeout(_)) => return Ok((body, false, true)),
                        Err(e) => return Err(e),
                    }
                }
                body.extend_from_slice(&self.buf[..size]);
                self.buf.drain(..size + 2);
                if size == 0 {
                    return Ok((body, true, true));
                }
                if stop(&body) {
                    return Ok((body, false, true));
                }
            }
        } else if let Some(cl) = h("content-length").and_then(|v| v.parse::<usize>().ok()) {
            while self.buf.len() < cl {
                match self.fill(deadline) {
                    Ok(0) => {
                        body.extend_from_slice(&self.buf);
                        self.buf.clear();
                        return Ok((body, false, false));
                    }
                    Ok(_) => {}
                    Err(HttpErr::Timeout(_)) => return Ok((self.buf.clone(), false, false)),
                    Err(e) => return Err(e),
                }
            }
            body.extend_from_slice(&self.buf[..cl]);
            self.buf.drain(..cl);
            Ok((body, true, false))
        } else {
            // no length: 204/304 or close-delimited
            Ok((body, true, false))
        }
    }

    pub fn roundtrip(&mut self, raw: &[u8], timeout: Duration) -> Result<Resp, HttpErr> {
        self.send(raw)?;
        self.response(timeout)
    }

    pub fn response(&mut self, timeout: Duration) -> Result<Resp, HttpErr> {
        let (status, headers) = self.read_head(timeout)?;
        let (body, complete, chunked) = if status == 204 || status == 304 { (vec![], true, false) } else { self.read_body(&headers, timeout, |_| false)? };
        Ok(Resp { status, headers, body, complete, chunked })
    }
}

pub fn find(hay: &[u8], needle: &[u8]) -> Option<usize> {
    hay.windows(needle.len()).position(|w| w == needle)
}

pub struct Req {
    pub method: String,
    pub target: String,
    pub headers: Vec<(String, Vec<u8>)>,
    pub body: Vec<u8>,
    pub chunked: Option<usize>, // chunk size
}

impl Req {
    pub fn new(method: &str, target: &str) -> Req {
        Req { method: method.into(), target: target.into(), headers: vec![], body: vec![], chunked: None }
    }
    pub fn header(mut self, k: &str, v: &[u8]) -> Req {
        self.headers.push((k.into(), v.to_vec()));
        self
    }
    pub fn body(mut self, b: &[u8]) -> Req {
        self.body = b.to_vec();
        self
    }
    pub fn chunked(mut self, size: usize) -> Req {
        self.chunked = Some(size.max(1));
        self
    }
    pub fn bytes(&self) -> Vec<u8> {
        let mut o = Vec::new();
        o.extend_from_slice(format!("{} {} HTTP/1.1\r\nHost: localhost\r\n", self.method, self.target).as_bytes());
        for (k, v) in &self.headers {
            o.extend_from_slice(k.as_bytes());
            o.extend_from_slice(b": ");
            o.extend_from_slice(v);
            o.extend_from_slice(b"\r\n");
        }
        match self.chunked {
            Some(sz) if !self.body.is_empty() => {
                o.extend_from_slice(b"Transfer-Encoding: chunked\r\n\r\n");
                for c in self.body.chunks(sz) {
                    o.extend_from_slice(format!("{:x}\r\n", c.len()).as_bytes());
                    o.extend_from_slice(c);
                    o.extend_from_slice(b"\r\n");
                }
                o.extend_from_slice(b"0\r\n\r\n");
            }
            _ => {
                if !self.body.is_empty() || self.method == "POST" || self.method == "PUT" {
                    o.extend_from_slice(format!("Content-Length: {}\r\n", self.body.len()).as_bytes());
                }
                o.extend_from_slice(b"\r\n");
                o.extend_from_slice(&self.body);
            }
        }
        o
    }
}

/// one request on a fresh connection
pub fn once(sock: &Path, req: &Req, timeout: Duration) -> Result<Resp, HttpErr> {
    let mut c = Conn::open(sock)?;
    c.roundtrip(&req.bytes(), timeout)
}

/// parse NDJSON lines
pub fn ndjson(body: &[u8]) -> Vec<serde_json::Value> {
    body.split(|b| *b == b'\n').filter(|l| !l.is_empty()).filter_map(|l| serde_json::from_slice(l).ok()).collect()
}

/// parse SSE events: (id, data-json)
pub fn sse(body: &[u8]) -> Vec<(String, serde_json::Value)> {
    let text = String::from_utf8_lossy(body);
    let mut out = vec![];
    for ev in text.split("\n\n") {
        let mut id = String::new();
        let mut data = String::new();
        for l in ev.lines() {
            if let Some(v) = l.strip_prefix("id: ") {
                id = v.to_string();
            } else if let Some(v) = l.strip_prefix("data: ") {
                data.push_str(v);
            }
        }
        if !id.is_empty() || !data.is_empty() {
            out.push((id, serde_json::from_str(&data).unwrap_or(serde_json::Value::Null)));
        }
    }
    out
}
