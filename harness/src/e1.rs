//! E1 — store-history explorer: a seeded operation sequence is fed to a real store in a
//! child process, step by step; the reference model is updated from acknowledgements and
//! compared with every observation (C01, C05, C07, C08, C09; C20 builds on it).

use std::collections::{BTreeMap, BTreeSet};
use std::time::{Duration, SystemTime, UNIX_EPOCH};

use scru128::Scru128Id;
use serde_json::{json, Value};

use xs::store::{Frame, TTL, ZERO_CONTEXT};

use crate::gen;
use crate::model::*;
use crate::report::fnv;
use crate::rng::Rng;
use crate::session::{frame_digest, rm_dir, unhex, work_dir, Session, SessionError};

#[derive(Clone, Debug)]
pub struct Profile {
    pub name: &'static str,
    // op weights
    pub w_append: u32,
    pub w_import: u32,
    pub w_remove: u32,
    pub w_register: u32,
    pub w_clock: u32,
    pub w_drain: u32,
    pub w_reopen: u32,
    pub w_kill: u32,
    pub w_read: u32,
    pub w_get: u32,
    pub w_head: u32,
    pub w_sweep: u32,
    pub w_probe: u32,
    pub w_badctx_append: u32,
    pub w_nul: u32,
    // ttl weights: none, forever, ephemeral, time, head
    pub w_ttl: [u32; 5],
    pub time_ns: &'static [u64],
    pub head_ks: &'static [u32],
    pub topics: Vec<String>,
    pub collide_import: bool,
    pub import_registrations: bool,
    pub bulk: bool,
    pub nu_paths: bool,
    pub len: (usize, usize),
}

pub fn profile(name: &str) -> Profile {
    let all_topics: Vec<String> = gen::TOPIC_POOL.iter().map(|s| s.to_string()).chain(std::iter::once(gen::long_topic())).collect();
    let base = Profile {
        name: "c01",
        w_append: 30,
        w_import: 8,
        w_remove: 8,
        w_register: 3,
        w_clock: 6,
        w_drain: 4,
        w_reopen: 2,
        w_kill: 1,
        w_read: 18,
        w_get: 6,
        w_head: 6,
        w_sweep: 3,
        w_probe: 1,
        w_badctx_append: 2,
        w_nul: 1,
        w_ttl: [4, 2, 2, 5, 4],
        time_ns: &[0, 1, 50, 5_000, 1_000_000_000, u64::MAX],
        head_ks: &[1, 2, 3, 7, u32::MAX],
        topics: all_topics.clone(),
        collide_import: false,
        import_registrations: true,
        bulk: false,
        nu_paths: true,
        len: (30, 60),
    };
    match name {
        "c01" => base,
        "c01bulk" => Profile { name: "c01bulk", bulk: true, len: (12, 20), ..base },
        // few topics, few contexts: TTL kinds, removes and imports collide on the same (context, topic)
        "c01dense" => Profile {
            name: "c01dense",
            topics: vec!["a".into(), "ab".into(), "".into()],
            w_remove: 12,
            w_ttl: [3, 2, 2, 5, 8],
            head_ks: &[1, 2, 3],
            w_register: 1,
            len: (40, 80),
            ..base
        },
        "c05" => Profile {
            name: "c05",
            w_clock: 0,
            w_import: 10,
            w_remove: 10,
            w_head: 14,
            w_sweep: 6,
            w_nul: 4,
            w_ttl: [5, 2, 2, 1, 5],
            time_ns: &[1_000_000_000, u64::MAX],
            collide_import: false,
            ..base
        },
        "c07" => Profile {
            name: "c07",
            w_append: 22,
            w_register: 10,
            w_import: 8,
            w_remove: 10,
            w_clock: 0,
            w_reopen: 6,
            w_kill: 4,
            w_probe: 8,
            w_badctx_append: 8,
            w_read: 6,
            w_ttl: [5, 2, 2, 1, 2],
            time_ns: &[1_000_000_000],
            topics: vec!["a".into(), "ab".into(), "xs.contextx".into(), "xs.contex".into(), "".into()],
            ..base
        },
        "c08" | "c09" => Profile {
            name: if name == "c08" { "c08" } else { "c09" },
            w_append: 40,
            w_import: 0,
            w_remove: 5,
            w_clock: 12,
            w_drain: 8,
            w_read: 18,
            w_sweep: 5,
            w_reopen: 2,
            w_kill: 0,
            w_nul: 0,
            w_badctx_append: 0,
            w_ttl: [3, 2, 3, 8, 8],
            time_ns: &[0, 1, 2, 50, 400, 5_000, 1_000_000_000, u64::MAX],
            head_ks: &[1, 2, 3, 7, u32::MAX],
            // (two topics that merely start with the registration topic: retention rules apply to them as to any other)
            topics: vec!["a".into(), "ab".into(), "a.b".into(), "a\u{1}".into(), "".into(), "abc".into(), "xs.contexts".into(), "xs.context.note".into()],
            import_registrations: false,
            ..base
        },
        // GC backlog: more expired frames than the collector's queue could ever be expected to hold, passed
        // over by one read; head:N appends made while the collector is still busy
        "c09backlog" => Profile {
            name: "c09backlog",
            bulk: true,
            len: (8, 14),
            w_import: 0,
            w_kill: 0,
            w_reopen: 0,
            w_nul: 0,
            w_badctx_append: 0,
            w_ttl: [3, 2, 3, 8, 8],
            time_ns: &[1, 50, 1_000_000_000],
            head_ks: &[1, 2, 3],
            topics: vec!["a".into(), "ab".into(), "".into()],
            import_registrations: false,
            nu_paths: false,
            ..base
        },
        _ => base,
    }
}

#[derive(Default)]
pub struct HistoryResult {
    pub findings: Vec<Finding>,
    pub counters: BTreeMap<String, u64>,
    pub sets: BTreeMap<String, BTreeSet<String>>,
    pub trace: Vec<Value>,
    pub inconclusive: Option<String>,
    pub hash: u64,
    pub flags: BTreeSet<&'static str>,
}

impl HistoryResult {
    fn count(&mut self, k: &str) {
        *self.counters.entry(k.to_string()).or_insert(0) += 1;
    }
    fn countn(&mut self, k: &str, n: u64) {
        *self.counters.entry(k.to_string()).or_insert(0) += n;
    }
    fn seen(&mut self, set: &str, v: impl Into<String>) {
        self.sets.entry(set.to_string()).or_default().insert(v.into());
    }
    pub fn add_pub(&mut self, step: usize, fs: Vec<Finding>) {
        self.add(step, fs)
    }
    fn add(&mut self, step: usize, mut fs: Vec<Finding>) {
        for f in fs.iter_mut() {
            f.detail = json!({"step": step, "what": f.detail});
        }
        self.findings.extend(fs);
    }
}

pub fn real_now_ms() -> u64 {
    SystemTime::now().duration_since(UNIX_EPOCH).unwrap().as_millis() as u64
}

fn ttl_json(t: &Option<TTL>) -> Value {
    serde_json::to_value(t).unwrap()
}

pub struct Runner {
    pub profile: Profile,
    pub rng: Rng,
    pub model: Model,
    pub sess: Option<Session>,
    pub dir: std::path::PathBuf,
    pub res: HistoryResult,
    pub step: usize,
    /// context ids: registered (by append or import), in creation order
    pub ctxs: Vec<u128>,
    /// ids that were never registered (foreign)
    pub bogus_ctxs: Vec<u128>,
    pub follower: Option<String>,
    pub follower_seen: usize,
    pub era_appends: Vec<(u128, u64)>, // (id, digest) of appends acked in this era, in ack order
    pub absent_ids: Vec<u128>,
}

type R<T> = Result<T, SessionError>;

impl Runner {
    pub fn new(profile: Profile, seed: u64) -> R<Runner> {
        Self::new_opt(profile, seed, false)
    }

    /// `serve`: the child also runs the real serve loops and the HTTP API on <dir>/sock
    pub fn new_opt(profile: Profile, seed: u64, serve: bool) -> R<Runner> {
        Self::new_opt_env(profile, seed, serve, &[])
    }

    pub fn op_drain_pub(&mut self) -> R<()> {
        self.op_drain()
    }

    pub fn new_opt_env(profile: Profile, seed: u64, serve: bool, env: &[(&str, &str)]) -> R<Runner> {
        let dir = work_dir(&format!("e1-{}", profile.name));
        let now0 = env.iter().find(|(k, _)| *k == "XSMON_CLOCK").and_then(|(_, v)| v.parse::<u64>().ok()).unwrap_or_else(real_now_ms);
        let sess = Session::spawn_with(&dir, serve, &[("XSMON_CLOCK", &now0.to_string())])?;
        let mut r = Runner {
            profile,
            rng: Rng::new(seed),
            model: Model::default(),
            sess: Some(sess),
            dir,
            res: HistoryResult::default(),
            step: 0,
            ctxs: vec![],
            bogus_ctxs: vec![],
            follower: None,
            follower_seen: 0,
            era_appends: vec![],
            absent_ids: vec![],
        };
        r.model.now = now0;
        // two context ids that are never registered; one numerically adjacent to a real one is added later
        r.bogus_ctxs.push(Scru128Id::from(0x0123_4567_89ab_cdef_0123_4567_89ab_cdefu128).to_u128());
        r.bogus_ctxs.push(1u128);
        if serve {
            // frames the server wrote on start-up (xs.start) are part of the history
            let v = r.call(json!({"op": "read_sync"}))?;
            let frames: Vec<Frame> = serde_json::from_value(v["frames"].clone()).unwrap_or_default();
            for f in frames {
                r.model.on_append(&f);
            }
        }
        r.start_follower()?;
        Ok(r)
    }

    /// record an append that was acknowledged through another front end (HTTP, scripts)
    pub fn note_external_append(&mut self, stored: &Frame) {
        self.model.on_append(stored);
        self.era_appends.push((stored.id.to_u128(), frame_digest(stored)));
        if stored.topic == "xs.context" && stored.context_id == ZERO_CONTEXT {
            self.ctxs.push(stored.id.to_u128());
        }
    }

    pub fn call(&mut self, op: Value) -> R<Value> {
        let v = self.sess.as_mut().unwrap().call(op.clone())?;
        if let Some(p) = v.get("panics") {
            self.res.findings.push(finding(
                &["C01", "C05", "C07", "C08", "C09", "C12", "C20"],
                format!("panic-in-store/op={}", op["op"].as_str().unwrap_or("?")),
                json!({"step": self.step, "op": trim_op(&op), "panics": p}),
            ));
        }
        Ok(v)
    }

    fn start_follower(&mut self) -> R<()> {
        let fid = format!("F{}", self.model.era);
        self.call(json!({"op": "follow_start", "fid": fid, "query": "follow=true&tail=true"}))?;
        self.follower = Some(fid);
        self.follower_seen = 0;
        self.era_appends.clear();
        Ok(())
    }

    fn trace(&mut self, v: Value) {
        if self.res.trace.len() < 400 {
            self.res.trace.push(v);
        }
    }

    // ----- choices ---------------------------------------------------------

    fn pick_topic(&mut self) -> String {
        let i = self.rng.below(self.profile.topics.len());
        self.profile.topics[i].clone()
    }

    fn pick_ctx_usable(&mut self) -> u128 {
        let usable: Vec<u128> = self.model.usable_contexts().into_iter().collect();
        if self.rng.chance(350) {
            ZERO_CONTEXT.to_u128()
        } else {
            *self.rng.pick(&usable)
        }
    }

    fn pick_ctx_any(&mut self) -> u128 {
        let mut all: Vec<u128> = vec![ZERO_CONTEXT.to_u128()];
        all.extend(self.ctxs.iter());
        all.extend(self.bogus_ctxs.iter());
        // contexts of any frame in the model (imports may name arbitrary ones)
        *self.rng.pick(&all)
    }

    fn pick_ttl(&mut self) -> Option<TTL> {
        match self.rng.weighted(&self.profile.w_ttl) {
            0 => None,
            1 => Some(TTL::Forever),
            2 => Some(TTL::Ephemeral),
            3 => {
                let n = *self.rng.pick(self.profile.time_ns);
                Some(TTL::Time(Duration::from_millis(n)))
            }
            _ => Some(TTL::Head(*self.rng.pick(self.profile.head_ks))),
        }
    }

    fn live_ids(&self) -> Vec<u128> {
        self.model.frames.iter().filter(|(_, m)| self.model.physical(m) != P3::Gone).map(|(i, _)| *i).collect()
    }

    fn pick_id_class(&mut self) -> (Option<u128>, &'static str) {
        let all: Vec<u128> = self.model.frames.keys().copied().collect();
        let live = self.live_ids();
        let removed: Vec<u128> = self.model.frames.iter().filter(|(_, m)| m.removed).map(|(i, _)| *i).collect();
        match self.rng.below(8) {
            0 => (None, "none"),
            1 | 2 if !live.is_empty() => (Some(*self.rng.pick(&live)), "live"),
            3 if !removed.is_empty() => (Some(*self.rng.pick(&removed)), "removed"),
            4 if all.len() >= 2 => {
                let i = self.rng.below(all.len() - 1);
                let mid = all[i] + (all[i + 1] - all[i]) / 2;
                if self.model.frames.contains_key(&mid) {
                    (Some(all[i]), "live")
                } else {
                    (Some(mid), "absent-between")
                }
            }
            5 if !all.is_empty() => (Some(all[0].saturating_sub(1 + self.rng.below(1000) as u128)), "below-first"),
            6 if !all.is_empty() => (Some(all[all.len() - 1] + 1 + self.rng.below(1000) as u128), "above-last"),
            7 if !self.model.ephemerals.is_empty() => {
                let e: Vec<u128> = self.model.ephemerals.keys().copied().collect();
                (Some(*self.rng.pick(&e)), "ephemeral-id")
            }
            _ => {
                if live.is_empty() {
                    (None, "none")
                } else {
                    (Some(*self.rng.pick(&live)), "live")
                }
            }
        }
    }

    // ----- operations --------------------------------------------------------

    fn op_append(&mut self, req: Frame, content: Option<Vec<u8>>) -> R<Option<Frame>> {
        let expect = self.model.append_allowed(&req);
        let mut op = json!({"op": "append", "frame": req});
        if let Some(c) = &content {
            op["content_b64"] = json!(crate::session::b64(c));
        }
        let v = self.call(op)?;
        self.res.count("ops.append");
        self.trace(json!({"append": {"topic": req.topic, "ctx": req.context_id.to_string(), "ttl": ttl_json(&req.ttl), "expect": format!("{:?}", expect), "ok": v.get("ok").is_some()}}));
        let step = self.step;
        match (v.get("ok"), expect) {
            (Some(fv), Ok(())) => {
                let stored: Frame = serde_json::from_value(fv.clone()).map_err(|e| SessionError::Harness(e.to_string()))?;
                let mut exp = Model::expected_append(&req);
                exp.id = stored.id;
                if content.is_some() {
                    exp.hash = stored.hash.clone();
                    if let (Some(c), Some(h)) = (&content, &stored.hash) {
                        if h.to_string() != crate::cas::sha256_integrity(c) {
                            self.res.add(step, vec![finding(&["C10"], "append/hash-is-not-sha256-of-content", json!({"hash": h.to_string()}))]);
                        }
                    }
                }
                if stored != exp {
                    let props: &[&'static str] = if req.topic == "xs.context" && stored.ttl != Some(TTL::Forever) { &["C07"] } else { &["C01", "C12"] };
                    self.res.add(step, vec![finding(props, "append/returned-frame-differs-from-request", json!({"request": req, "returned": stored}))]);
                }
                if let Some(prev) = self.model.last_append_id {
                    if stored.id <= prev {
                        self.res.add(step, vec![finding(&["C01", "C02"], "append/id-not-increasing", json!({"prev": prev.to_string(), "new": stored.id.to_string()}))]);
                    }
                }
                if stored.topic == "xs.context" {
                    self.ctxs.push(stored.id.to_u128());
                    self.res.count("ctx.registered_by_append");
                    if req.ttl.is_some() && req.ttl != Some(TTL::Forever) {
                        self.res.count("ctx.register_with_other_ttl");
                    }
                }
                // the model keeps what the store said it stored iff it equals the expectation; else the expectation
                self.model.on_append(&exp);
                self.era_appends.push((exp.id.to_u128(), frame_digest(&exp)));
                match &exp.ttl {
                    Some(TTL::Ephemeral) => self.res.count("appended.ephemeral"),
                    Some(TTL::Time(_)) => self.res.count("appended.time"),
                    Some(TTL::Head(_)) => self.res.count("appended.head"),
                    _ => self.res.count("appended.forever"),
                }
                Ok(Some(exp))
            }
            (Some(fv), Err(why)) => {
                let props: &[&'static str] = if why == "nul-in-topic" { &["C05"] } else { &["C07"] };
                self.res.add(step, vec![finding(props, format!("append/accepted-but-must-be-rejected/{}", why), json!({"request": req, "returned": fv}))]);
                // keep the model in line with reality so that one defect is reported once
                if let Ok(stored) = serde_json::from_value::<Frame>(fv.clone()) {
                    self.model.on_append(&stored);
                    self.era_appends.push((stored.id.to_u128(), frame_digest(&stored)));
                }
                Ok(None)
            }
            (None, Ok(())) => {
                let via_import = self.model.frames.get(&req.context_id.to_u128()).map(|m| m.imported).unwrap_or(false);
                let sig = if via_import {
                    "append/rejected-but-context-is-registered/registration-was-imported"
                } else {
                    "append/rejected-but-must-be-accepted"
                };
                self.res.add(step, vec![finding(&["C07", "C20"], sig, json!({"request": req, "error": v["err"]}))]);
                Ok(None)
            }
            (None, Err(why)) => {
                self.res.count(&format!("rejected.{}", why));
                Ok(None)
            }
        }
    }

    fn gen_append(&mut self) -> R<()> {
        let topic = self.pick_topic();
        let ctx = self.pick_ctx_usable();
        let meta = gen::meta(&mut self.rng);
        let ttl = self.pick_ttl();
        let content = if self.rng.chance(200) { Some(self.rng.bytes(1 + self.rng.clone().below(64))) } else { None };
        let req = Frame::builder(topic, Scru128Id::from(ctx)).maybe_meta(meta).maybe_ttl(ttl).build();
        self.op_append(req, content).map(|_| ())
    }

    fn gen_register(&mut self) -> R<()> {
        // request a non-forever ttl sometimes: must be forced to forever
        let ttl = match self.rng.below(5) {
            0 => Some(TTL::Ephemeral),
            1 => Some(TTL::Time(Duration::from_millis(1))),
            2 => Some(TTL::Head(1)),
            3 => Some(TTL::Forever),
            _ => None,
        };
        let ctx = if self.rng.chance(150) && !self.ctxs.is_empty() { *self.rng.pick(&self.ctxs) } else { ZERO_CONTEXT.to_u128() };
        let req = Frame::builder("xs.context", Scru128Id::from(ctx)).maybe_ttl(ttl).build();
        self.op_append(req, None).map(|_| ())
    }

    fn gen_badctx_append(&mut self) -> R<()> {
        // context ids that are not usable: never registered, unregistered again, adjacent to a real one
        let mut cands: Vec<u128> = self.bogus_ctxs.clone();
        let usable = self.model.usable_contexts();
        for c in &self.ctxs {
            if !usable.contains(c) {
                cands.push(*c);
            }
            cands.push(c + 1);
            cands.push(c - 1);
        }
        // ids of ordinary frames are not contexts either
        if let Some(id) = self.live_ids().first() {
            cands.push(*id);
        }
        cands.retain(|c| !usable.contains(c));
        if cands.is_empty() {
            return Ok(());
        }
        let ctx = *self.rng.pick(&cands);
        let topic = self.pick_topic();
        let ttl = self.pick_ttl();
        let req = Frame::builder(topic, Scru128Id::from(ctx)).maybe_ttl(ttl).build();
        self.res.count("ops.append_unusable_ctx");
        self.op_append(req, None).map(|_| ())
    }

    fn gen_nul(&mut self) -> R<()> {
        let topic = self.rng.pick(gen::NUL_TOPICS).to_string();
        let ctx = self.pick_ctx_usable();
        if self.rng.chance(500) {
            let ttl = self.pick_ttl();
            let req = Frame::builder(topic, Scru128Id::from(ctx)).maybe_ttl(ttl).build();
            self.res.count("ops.nul_append");
            self.op_append(req, None).map(|_| ())
        } else {
            let id = self.fresh_import_id();
            let f = Frame::builder(topic, Scru128Id::from(ctx)).id(Scru128Id::from(id)).build();
            self.res.count("ops.nul_import");
            let v = self.call(json!({"op": "import", "frame": f}))?;
            if v.get("ok").is_some() {
                let step = self.step;
                self.res.add(step, vec![finding(&["C05", "C20"], "import/nul-topic-accepted", json!({"frame": f}))]);
            }
            self.absent_ids.push(id);
            Ok(())
        }
    }

    fn fresh_import_id(&mut self) -> u128 {
        let all: Vec<u128> = self.model.frames.keys().copied().collect();
        let now_id = {
            // an id whose timestamp is the real clock now (like a frame exported from another store just now)
            let ts = real_now_ms() as u128;
            (ts << 80) | (self.rng.next() as u128) << 16 | (self.rng.next() as u128 & 0xffff)
        };
        let cand = match self.rng.below(6) {
            0 if !all.is_empty() => all[0].saturating_sub(1 + (self.rng.next() as u128 % (1u128 << 82))),
            1 if all.len() >= 2 => {
                let i = self.rng.below(all.len() - 1);
                all[i] + (all[i + 1] - all[i]) / 2
            }
            2 if !all.is_empty() => all[all.len() - 1] + 1 + self.rng.below(5000) as u128,
            3 => now_id.saturating_sub((self.rng.below(100_000) as u128) << 80), // up to 100 s in the past
            4 if !all.is_empty() => all[self.rng.below(all.len())] + 1,
            _ => now_id,
        };
        let mut cand = cand.max(1 << 80);
        while self.model.frames.contains_key(&cand) || self.model.ephemerals.contains_key(&cand) {
            cand += 1;
        }
        cand
    }

    fn gen_import(&mut self) -> R<()> {
        let removed: Vec<u128> = self.model.frames.iter().filter(|(_, m)| m.removed).map(|(i, _)| *i).collect();
        let live = self.live_ids();
        let mode = self.rng.below(10);
        let (frame, kind): (Frame, &str) = if mode == 0 && !live.is_empty() {
            // re-import an existing frame unchanged (idempotence)
            let id = *self.rng.pick(&live);
            (self.model.frames[&id].frame.clone(), "same-frame-again")
        } else if mode == 1 && !removed.is_empty() {
            let id = *self.rng.pick(&removed);
            (self.model.frames[&id].frame.clone(), "removed-id-again")
        } else if mode == 2 && self.profile.collide_import && !live.is_empty() {
            let id = *self.rng.pick(&live);
            let mut f = self.model.frames[&id].frame.clone();
            f.topic = self.pick_topic();
            (f, "existing-id-other-topic")
        } else if mode == 4 && self.profile.import_registrations && !self.ctxs.is_empty() {
            // an xs.context frame OUTSIDE the zero context: stored as is, but it registers nothing
            let id = self.fresh_import_id();
            let usable: Vec<u128> = self.model.usable_contexts().into_iter().filter(|c| *c != 0).collect();
            let home = if usable.is_empty() { self.bogus_ctxs[0] } else { *self.rng.pick(&usable) };
            self.bogus_ctxs.push(id);
            (Frame::builder("xs.context", Scru128Id::from(home)).id(Scru128Id::from(id)).build(), "registration-outside-zero-context")
        } else if mode == 3 && self.profile.import_registrations {
            // a context registration arriving by import (forever); half of them with an id on a field boundary of
            // the id layout (trailing 8 / 16 / 24 / 32 / 56 bits all ones): "the next context id" then carries
            let mut id = self.fresh_import_id();
            if self.rng.chance(500) {
                let bits = [8u32, 16, 24, 32, 56][self.rng.below(5)];
                let cand = id | ((1u128 << bits) - 1);
                if !self.model.frames.contains_key(&cand) && !self.model.ephemerals.contains_key(&cand) {
                    id = cand;
                    self.res.seen("boundary_context_ids", format!("low-{}-bits-set", bits));
                }
            }
            let ttl = if self.rng.chance(500) { Some(TTL::Forever) } else { None };
            (Frame::builder("xs.context", ZERO_CONTEXT).id(Scru128Id::from(id)).maybe_ttl(ttl).build(), "registration")
        } else {
            let id = self.fresh_import_id();
            let topic = self.pick_topic();
            let ctx = self.pick_ctx_any();
            let meta = gen::meta(&mut self.rng);
            // imports keep whatever ttl the frame has; time/head ttls only with values that cannot expire/evict here
            let ttl = match self.rng.below(6) {
                0 => None,
                1 => Some(TTL::Forever),
                2 => Some(TTL::Time(Duration::from_millis(1_000_000_000_000))),
                3 => Some(TTL::Head(u32::MAX)),
                4 => Some(TTL::Head(1 + self.rng.below(3) as u32)),
                _ => None,
            };
            let hash = if self.rng.chance(300) {
                Some(crate::cas::sha256_integrity(&self.rng.bytes(8)).parse::<ssri::Integrity>().unwrap())
            } else {
                None
            };
            (
                Frame::builder(topic, Scru128Id::from(ctx)).id(Scru128Id::from(id)).maybe_meta(meta).maybe_ttl(ttl).maybe_hash(hash).build(),
                "fresh",
            )
        };
        let v = self.call(json!({"op": "import", "frame": frame}))?;
        self.res.count("ops.import");
        self.res.seen("import_kinds", kind);
        self.trace(json!({"import": {"id": frame.id.to_string(), "topic": frame.topic, "ctx": frame.context_id.to_string(), "kind": kind, "ok": v.get("ok").is_some()}}));
        if v.get("ok").is_some() {
            if frame.topic == "xs.context" && frame.context_id == ZERO_CONTEXT && !self.ctxs.contains(&frame.id.to_u128()) {
                self.ctxs.push(frame.id.to_u128());
                self.res.count("ctx.registered_by_import");
            }
            self.model.on_import(&frame);
        } else {
            let step = self.step;
            self.res.add(step, vec![finding(&["C20"], "import/rejected-a-storable-frame", json!({"frame": frame, "error": v["err"]}))]);
        }
        Ok(())
    }

    fn gen_remove(&mut self) -> R<()> {
        let live = self.live_ids();
        let removed: Vec<u128> = self.model.frames.iter().filter(|(_, m)| m.removed).map(|(i, _)| *i).collect();
        let usable: Vec<u128> = self.ctxs.iter().copied().filter(|c| self.model.usable_contexts().contains(c)).collect();
        let (id, kind) = match self.rng.below(10) {
            0 if !removed.is_empty() => (*self.rng.pick(&removed), "already-removed"),
            1 => (self.fresh_import_id(), "absent"),
            2 | 3 if !usable.is_empty() => (*self.rng.pick(&usable), "context-registration"),
            _ if !live.is_empty() => (*self.rng.pick(&live), "live"),
            _ => (self.fresh_import_id(), "absent"),
        };
        let v = self.call(json!({"op": "remove", "id": id_str(id)}))?;
        self.res.count("ops.remove");
        self.res.seen("remove_kinds", kind);
        self.trace(json!({"remove": {"id": id_str(id), "kind": kind}}));
        if v.get("ok").is_none() {
            let step = self.step;
            self.res.add(step, vec![finding(&["C01"], "remove/error", json!({"id": id_str(id), "error": v["err"]}))]);
        } else {
            self.model.on_remove(&Scru128Id::from(id));
            if kind == "context-registration" {
                self.res.count("ctx.unregistered");
            }
        }
        Ok(())
    }

    fn gen_clock(&mut self) -> R<()> {
        // positions relative to expiry instants: ts+N-1 (must survive), ts+N+1 (must be hidden), further
        let timed: Vec<(u64, u64)> = self
            .model
            .frames
            .values()
            .filter(|m| !m.removed)
            .filter_map(|m| match &m.frame.ttl {
                Some(TTL::Time(d)) => Some((ts_of(&m.frame.id), d.as_millis().min(u64::MAX as u128) as u64)),
                _ => None,
            })
            .filter(|(ts, n)| ts.checked_add(*n).map(|e| e + 2 > self.model.now && e < self.model.now + 100_000).unwrap_or(false))
            .collect();
        let target = if !timed.is_empty() && self.rng.chance(800) {
            let (ts, n) = *self.rng.pick(&timed);
            match self.rng.below(4) {
                0 => (ts + n).saturating_sub(1),
                1 => ts + n + 1,
                2 => ts + n + 1 + self.rng.below(50) as u64,
                _ => ts + n, // exactly on the instant: left free by the oracle
            }
        } else if self.rng.chance(500) {
            real_now_ms()
        } else {
            self.model.now + 1 + self.rng.below(100) as u64
        };
        if target <= self.model.now {
            return Ok(());
        }
        self.call(json!({"op": "clock", "ms": target}))?;
        self.model.now = target;
        self.res.count("ops.clock");
        self.trace(json!({"clock": target}));
        Ok(())
    }

    fn op_drain(&mut self) -> R<()> {
        self.call(json!({"op": "gc_drain"}))?;
        self.model.on_drain();
        self.res.count("ops.gc_drain");
        self.trace(json!("gc_drain"));
        Ok(())
    }

    /// the nushell path: `.cat` bound to one context, as scripts see it
    fn gen_nu_cat(&mut self) -> R<()> {
        let ctx = match self.rng.below(3) {
            0 => ZERO_CONTEXT.to_u128(),
            _ => self.pick_ctx_any(),
        };
        let (last_id, last_class) = self.pick_id_class();
        let n_scope = self.model.in_scope(Some(ctx), last_id).count();
        let limit = match self.rng.below(5) {
            0 | 1 => None,
            2 => Some(1usize),
            3 => Some(n_scope),
            _ => Some(n_scope + 1),
        };
        let mut expr = String::from(".cat");
        if let Some(l) = last_id {
            expr.push_str(&format!(" --last-id {}", nu_str(&id_str(l))));
        }
        if let Some(l) = limit {
            expr.push_str(&format!(" --limit {}", l));
        }
        expr.push_str(" | each {|f| [$f.id $f.topic $f.context_id]}");
        let v = self.call(json!({"op": "nu_eval", "ctx": id_str(ctx), "expr": expr}))?;
        self.res.count("ops.nu_cat");
        let step = self.step;
        let Some(rows) = v["value"].as_array() else {
            self.res.add(step, vec![finding(&["C01"], "nu-cat/error", json!({"expr": expr, "reply": v}))]);
            return Ok(());
        };
        let mut obs = vec![];
        let mut fs = vec![];
        for r in rows {
            let id: Option<Scru128Id> = r[0].as_str().and_then(|s| s.parse().ok());
            let Some(id) = id else { continue };
            let key = id.to_u128();
            // .cat yields records, not digests: identity fields are compared here, the digest is taken from the model
            match self.model.frames.get(&key) {
                Some(m) => {
                    if r[1].as_str() != Some(m.frame.topic.as_str()) || r[2].as_str() != Some(&m.frame.context_id.to_string()) {
                        fs.push(finding(&["C01"], "nu-cat/frame-fields-differ", json!({"row": r, "expected": m.frame})));
                    }
                    obs.push((key, m.digest));
                }
                None => obs.push((key, 0)),
            }
        }
        self.res.countn("observations.frames_compared", obs.len() as u64);
        self.res.seen("read_shapes", format!("nu-cat/ctx/last={}/limit={}", last_class, if limit.is_some() { "some" } else { "none" }));
        fs.extend(self.model.check_read("nu-cat", Some(ctx), last_id, limit, &obs));
        self.res.add(step, fs);
        Ok(())
    }

    fn gen_read(&mut self) -> R<()> {
        if self.profile.nu_paths && self.rng.chance(200) {
            return self.gen_nu_cat();
        }
        let path = if self.rng.chance(500) { "read_sync" } else { "read" };
        let ctx = match self.rng.below(4) {
            0 => None,
            1 => Some(ZERO_CONTEXT.to_u128()),
            _ => Some(self.pick_ctx_any()),
        };
        let (last_id, last_class) = self.pick_id_class();
        // an id belonging to another context is a further class of last-id
        let n_scope = self.model.in_scope(ctx, last_id).count();
        let (limit, limit_class) = match self.rng.below(7) {
            0 | 1 => (None, "none"),
            2 => (Some(0usize), "0"),
            3 => (Some(1usize), "1"),
            4 => (Some(n_scope.saturating_sub(1)), "k-1"),
            5 => (Some(n_scope), "k"),
            _ => (Some(n_scope + 1), "k+1"),
        };
        let mut op = json!({"op": path, "digest": true, "wait_ms": 60000});
        if let Some(c) = ctx {
            op["ctx"] = json!(id_str(c));
        }
        if let Some(l) = last_id {
            op["last_id"] = json!(id_str(l));
        }
        if let Some(l) = limit {
            op["limit"] = json!(l);
        }
        let v = self.call(op)?;
        if path == "read" && v["closed"] == false {
            self.res.inconclusive = Some("non-follow read did not end within 60 s".into());
            return Ok(());
        }
        let obs = parse_pairs(&v["frames"]);
        self.res.count(&format!("ops.{}", path));
        self.res.countn("observations.frames_compared", obs.len() as u64);
        let scope_class = match ctx {
            None => "all",
            Some(c) if c == ZERO_CONTEXT.to_u128() => "zero",
            Some(c) if self.bogus_ctxs.contains(&c) => "unregistered-ctx",
            Some(_) => "ctx",
        };
        self.res.seen("read_shapes", format!("{}/{}/last={}/limit={}", path, scope_class, last_class, limit_class));
        let fs = self.model.check_read(path, ctx, last_id, limit, &obs);
        self.trace(json!({"read": {"path": path, "scope": scope_class, "last": last_class, "limit": limit, "n": obs.len()}}));
        let step = self.step;
        self.res.add(step, fs);
        Ok(())
    }

    fn gen_get(&mut self) -> R<()> {
        let (id, class) = self.pick_id_class();
        let Some(id) = id else { return Ok(()) };
        let obs = if self.profile.nu_paths && self.rng.chance(250) {
            // `.get <id>` from a script: a record, or an error when there is no such frame
            let v = self.call(json!({"op": "nu_eval", "ctx": ZERO_CONTEXT.to_string(), "expr": format!(".get {} | get id", nu_str(&id_str(id)))}))?;
            self.res.count("ops.nu_get");
            match v["value"].as_str() {
                Some(got) if got == id_str(id) => self.model.frames.get(&id).map(|m| m.digest).or(Some(0)),
                Some(_) => Some(0),
                None => None,
            }
        } else {
            let v = self.call(json!({"op": "get", "id": id_str(id)}))?;
            self.res.count("ops.get");
            if v["frame"].is_null() {
                None
            } else {
                let f: Frame = serde_json::from_value(v["frame"].clone()).map_err(|e| SessionError::Harness(e.to_string()))?;
                Some(frame_digest(&f))
            }
        };
        self.res.seen("get_classes", class);
        let (fs, _) = self.model.check_get(id, obs, false);
        let step = self.step;
        self.res.add(step, fs);
        Ok(())
    }

    fn gen_head(&mut self) -> R<()> {
        let topic = self.pick_topic();
        let ctx = self.pick_ctx_any();
        let obs = if self.profile.nu_paths && self.rng.chance(300) {
            // `.head <topic>` in a script bound to ctx, or bound elsewhere and naming ctx explicitly
            let explicit = self.rng.chance(500);
            let (bound, expr) = if explicit {
                (ZERO_CONTEXT.to_u128(), format!(".head {} --context {} | default null", nu_str(&topic), nu_str(&id_str(ctx))))
            } else {
                (ctx, format!(".head {} | default null", nu_str(&topic)))
            };
            let v = self.call(json!({"op": "nu_eval", "ctx": id_str(bound), "expr": expr}))?;
            self.res.count("ops.nu_head");
            let r = &v["value"];
            if r.is_null() || !r.is_object() {
                None
            } else {
                let id: Scru128Id = r["id"].as_str().unwrap_or("").parse().unwrap_or(ZERO_CONTEXT);
                let c: Scru128Id = r["context_id"].as_str().unwrap_or("").parse().unwrap_or(ZERO_CONTEXT);
                Some((id.to_u128(), r["topic"].as_str().unwrap_or("").to_string(), c.to_u128()))
            }
        } else {
            let v = self.call(json!({"op": "head", "topic": topic, "ctx": id_str(ctx)}))?;
            self.res.count("ops.head");
            if v["frame"].is_null() {
                None
            } else {
                let f: Frame = serde_json::from_value(v["frame"].clone()).map_err(|e| SessionError::Harness(e.to_string()))?;
                Some((f.id.to_u128(), f.topic.clone(), f.context_id.to_u128()))
            }
        };
        let fs = self.model.check_head(&topic, ctx, obs);
        let step = self.step;
        self.res.add(step, fs);
        Ok(())
    }

    /// probe every known context id with an append: accept/reject must equal the model
    fn gen_probe(&mut self) -> R<()> {
        let mut all: Vec<u128> = vec![ZERO_CONTEXT.to_u128()];
        all.extend(self.ctxs.iter());
        all.extend(self.bogus_ctxs.iter());
        for c in all {
            let req = Frame::builder("probe", Scru128Id::from(c)).build();
            self.op_append(req, None)?;
            self.res.count("ops.probe_append");
        }
        Ok(())
    }

    fn reopen(&mut self, kill: bool) -> R<()> {
        // settle the follower of this era first (its deliveries are part of what must hold)
        self.check_follower()?;
        let s = self.sess.take().unwrap();
        if kill {
            s.kill();
            self.res.count("ops.kill_reopen");
        } else {
            s.close();
            self.res.count("ops.reopen");
        }
        self.trace(json!({"reopen": {"kill": kill}}));
        // pending GC work died with the process: frames flagged `scanned_expired` stay "may"
        for m in self.model.frames.values_mut() {
            if m.scanned_expired && !m.gc_gone {
                m.scanned_expired = false;
                m.may_be_collected = true;
            }
        }
        let now_s = self.model.now.to_string();
        let sess = match Session::spawn_with(&self.dir, false, &[("XSMON_CLOCK", &now_s)]) {
            Ok(s) => s,
            Err(SessionError::Died(msg)) => {
                let step = self.step;
                self.res.add(step, vec![finding(&["C04", "C01", "C12"], "reopen/store-does-not-open", json!({"kill": kill, "message": msg}))]);
                return Err(SessionError::Died(msg));
            }
            Err(e) => return Err(e),
        };
        self.sess = Some(sess);
        self.model.on_reopen();
        self.start_follower()?;
        self.res.flags.insert("reopened");
        Ok(())
    }

    fn check_follower(&mut self) -> R<()> {
        let Some(fid) = self.follower.clone() else { return Ok(()) };
        let want = self.era_appends.len();
        let v = self.call(json!({"op": "follow_poll", "fid": fid, "min": want, "wait_ms": 10000, "digest": true}))?;
        let items: Vec<(u128, u64, String)> = v["items"]
            .as_array()
            .cloned()
            .unwrap_or_default()
            .iter()
            .filter_map(|p| {
                let id: Scru128Id = p[0].as_str()?.parse().ok()?;
                Some((id.to_u128(), p[1].as_str()?.parse().ok()?, p[2].as_str()?.to_string()))
            })
            .collect();
        let step = self.step;
        let mut fs = vec![];
        let got: Vec<(u128, u64)> = items.iter().map(|f| (f.0, f.1)).collect();
        self.res.countn("observations.live_frames", got.len().saturating_sub(self.follower_seen) as u64);
        self.follower_seen = got.len();
        if got != self.era_appends {
            // classify
            let exp: BTreeMap<u128, u64> = self.era_appends.iter().copied().collect();
            let gotm: BTreeMap<u128, u64> = got.iter().copied().collect();
            for (id, d) in &self.era_appends {
                match gotm.get(id) {
                    None => {
                        let eph = self.model.ephemerals.contains_key(id);
                        fs.push(finding(
                            if eph { &["C09", "C03"] } else { &["C03"] },
                            if eph { "follower/ephemeral-frame-not-delivered" } else { "follower/appended-frame-not-delivered" },
                            json!({"id": id_str(*id), "closed": v["closed"]}),
                        ));
                        break;
                    }
                    Some(gd) if gd != d => {
                        fs.push(finding(&["C03", "C12"], "follower/delivered-frame-differs", json!({"id": id_str(*id)})));
                        break;
                    }
                    _ => {}
                }
            }
            for (id, _d, topic) in &items {
                if !exp.contains_key(id) {
                    let (props, sig): (&[&'static str], &str) = if topic == "xs.threshold" || topic == "xs.pulse" {
                        (&["C11"], "follower/synthetic-frame-not-asked-for")
                    } else if self.model.frames.get(id).map(|m| m.imported).unwrap_or(false) {
                        (&["C20"], "follower/imported-frame-was-broadcast")
                    } else {
                        (&["C07", "C05"], "follower/frame-of-a-rejected-or-unknown-append")
                    };
                    fs.push(finding(props, sig, json!({"id": id_str(*id), "topic": topic})));
                    break;
                }
            }
            if fs.is_empty() && got.len() == self.era_appends.len() {
                fs.push(finding(&["C02", "C03"], "follower/order-differs-from-ack-order", json!({"got": got.iter().map(|g| id_str(g.0)).collect::<Vec<_>>()})));
            }
        }
        self.res.add(step, fs);
        Ok(())
    }

    pub fn sweep(&mut self) -> R<()> {
        self.op_drain()?;
        let mut ctxs: BTreeSet<u128> = BTreeSet::new();
        ctxs.insert(ZERO_CONTEXT.to_u128());
        ctxs.extend(self.ctxs.iter());
        ctxs.extend(self.bogus_ctxs.iter());
        for m in self.model.frames.values() {
            ctxs.insert(m.frame.context_id.to_u128());
        }
        // adjacent ids of one registered context
        if let Some(c) = self.ctxs.first() {
            ctxs.insert(c + 1);
            ctxs.insert(c - 1);
        }
        let mut ids: Vec<u128> = self.model.frames.keys().copied().collect();
        ids.extend(self.model.ephemerals.keys());
        ids.extend(self.absent_ids.iter());
        let mut head_pairs: BTreeSet<(String, u128)> = BTreeSet::new();
        for m in self.model.frames.values() {
            head_pairs.insert((m.frame.topic.clone(), m.frame.context_id.to_u128()));
        }
        // plus pool pairs that may have no frame at all (prefix relatives of used topics)
        let topics = self.profile.topics.clone();
        for _ in 0..24 {
            let t = topics[self.rng.below(topics.len())].clone();
            let c = *self.rng.pick(&ctxs.iter().copied().collect::<Vec<_>>());
            head_pairs.insert((t, c));
        }
        let head_pairs: Vec<(String, u128)> = head_pairs.into_iter().collect();
        let v = self.call(json!({
            "op": "sweep",
            "ctxs": ctxs.iter().map(|c| id_str(*c)).collect::<Vec<_>>(),
            "ids": ids.iter().map(|c| id_str(*c)).collect::<Vec<_>>(),
            "heads": head_pairs.iter().map(|(t, c)| json!([t, id_str(*c)])).collect::<Vec<_>>(),
        }))?;
        self.res.count("ops.sweep");
        self.trace(json!("sweep"));
        let step = self.step;
        let mut fs: Vec<Finding> = vec![];

        // streams, both paths
        let all = parse_pairs(&v["all"]);
        let all_async = parse_pairs(&v["all_async"]);
        fs.extend(self.model.check_read("read_sync", None, None, None, &all));
        fs.extend(self.model.check_read("read", None, None, None, &all_async));
        if all != all_async {
            fs.push(finding(&["C01"], "sweep/read-and-read_sync-disagree/all", json!({"read_sync": all.len(), "read": all_async.len()})));
        }
        self.res.countn("observations.frames_compared", (all.len() + all_async.len()) as u64);
        let all_set: BTreeSet<u128> = all.iter().map(|x| x.0).collect();
        let mut ctx_sets: BTreeMap<u128, Vec<(u128, u64)>> = BTreeMap::new();
        for c in &ctxs {
            let s = parse_pairs(&v["ctx"][id_str(*c)]);
            let a = parse_pairs(&v["ctx_async"][id_str(*c)]);
            fs.extend(self.model.check_read("read_sync", Some(*c), None, None, &s));
            fs.extend(self.model.check_read("read", Some(*c), None, None, &a));
            if s != a {
                fs.push(finding(&["C01"], "sweep/read-and-read_sync-disagree/ctx", json!({"ctx": id_str(*c)})));
            }
            self.res.countn("observations.frames_compared", (s.len() + a.len()) as u64);
            ctx_sets.insert(*c, s);
        }

        // by-id lookups; three-path agreement (C05)
        let mut newly_gone = vec![];
        for id in &ids {
            let g = &v["get"][id_str(*id)];
            let d = g.as_str().and_then(|s| s.parse::<u64>().ok());
            let (f2, gone) = self.model.check_get(*id, d, true);
            fs.extend(f2);
            if gone {
                newly_gone.push(*id);
            }
            self.res.count("observations.gets");
            if let Some(m) = self.model.frames.get(id) {
                if !self.model.expired_may(&m.frame) {
                    let in_get = d.is_some();
                    let in_all = all_set.contains(id);
                    let in_ctx = ctx_sets.get(&m.frame.context_id.to_u128()).map(|s| s.iter().any(|x| x.0 == *id)).unwrap_or(false);
                    if !(in_get == in_all && in_all == in_ctx) {
                        fs.push(finding(
                            &["C05", "C04"],
                            "sweep/lookup-paths-disagree",
                            json!({"id": id_str(*id), "by_id": in_get, "all_stream": in_all, "context_stream": in_ctx, "frame": m.frame, "flags": flags_of(m)}),
                        ));
                    }
                    self.res.count("observations.three_path_checks");
                }
            }
        }

        // heads: model (three-valued) and exactness against the observed context stream
        for (i, (t, c)) in head_pairs.iter().enumerate() {
            let h = &v["heads"][i];
            let obs = if h.is_null() {
                None
            } else {
                let id: Scru128Id = h["id"].as_str().unwrap_or("").parse().unwrap_or(ZERO_CONTEXT);
                let hc: Scru128Id = h["ctx"].as_str().unwrap_or("").parse().unwrap_or(ZERO_CONTEXT);
                Some((id.to_u128(), h["topic"].as_str().unwrap_or("").to_string(), hc.to_u128()))
            };
            fs.extend(self.model.check_head(t, *c, obs.clone()));
            // exact: last frame of the observed context stream with that topic
            let stream_last = ctx_sets
                .get(c)
                .and_then(|s| s.iter().rev().find(|(id, _)| self.model.frames.get(id).map(|m| &m.frame.topic == t).unwrap_or(false)))
                .map(|x| x.0);
            let obs_id = obs.as_ref().map(|o| o.0);
            if obs_id != stream_last {
                // legitimate only if the head is a frame hidden from stream reads by expiry
                let excused = obs_id.and_then(|i| self.model.frames.get(&i)).map(|m| self.model.expired_may(&m.frame)).unwrap_or(false);
                if !excused {
                    fs.push(finding(
                        &["C05"],
                        "sweep/head-is-not-last-of-context-stream",
                        json!({"topic": t, "ctx": id_str(*c), "head": obs_id.map(id_str), "stream_last": stream_last.map(id_str)}),
                    ));
                }
            }
            self.res.count("observations.heads");
        }
        self.res.seen("head_pairs_checked", format!("{}", head_pairs.len()));

        // raw index invariant (A.10)
        fs.extend(self.check_raw(&v["raw"]));

        for id in newly_gone {
            if let Some(m) = self.model.frames.get_mut(&id) {
                m.observed_gone = true;
            }
        }
        self.res.add(step, fs);
        self.check_follower()?;
        Ok(())
    }

    fn check_raw(&mut self, raw: &Value) -> Vec<Finding> {
        let mut fs = vec![];
        let mut exp_topic: BTreeSet<Vec<u8>> = BTreeSet::new();
        let mut exp_ctx: BTreeSet<Vec<u8>> = BTreeSet::new();
        let mut raw_ids: BTreeSet<u128> = BTreeSet::new();
        for e in raw["stream"].as_array().cloned().unwrap_or_default() {
            let key = unhex(e[0].as_str().unwrap_or(""));
            if e[1].is_null() {
                fs.push(finding(&["C12", "C05"], "raw/undecodable-stored-frame", json!({"key": e[0], "error": e[2]})));
                continue;
            }
            let id: Scru128Id = e[1].as_str().unwrap_or("").parse().unwrap_or(ZERO_CONTEXT);
            let ctx: Scru128Id = e[2].as_str().unwrap_or("").parse().unwrap_or(ZERO_CONTEXT);
            let topic = e[3].as_str().unwrap_or("");
            if key != id.to_u128().to_be_bytes() {
                fs.push(finding(&["C05", "C20"], "raw/stream-key-is-not-the-frame-id", json!({"key": e[0], "id": id.to_string()})));
            }
            raw_ids.insert(id.to_u128());
            exp_topic.insert(expected_topic_key(ctx.to_u128(), topic, id.to_u128()));
            exp_ctx.insert(expected_context_key(ctx.to_u128(), id.to_u128()));
        }
        let got_topic: BTreeSet<Vec<u8>> = raw["idx_topic"].as_array().cloned().unwrap_or_default().iter().map(|k| unhex(k.as_str().unwrap_or(""))).collect();
        let got_ctx: BTreeSet<Vec<u8>> = raw["idx_context"].as_array().cloned().unwrap_or_default().iter().map(|k| unhex(k.as_str().unwrap_or(""))).collect();
        if got_topic != exp_topic {
            let dangling: Vec<String> = got_topic.difference(&exp_topic).take(3).map(|k| crate::session::hex(k)).collect();
            let missing: Vec<String> = exp_topic.difference(&got_topic).take(3).map(|k| crate::session::hex(k)).collect();
            let sig = if !dangling.is_empty() { "raw/idx_topic-has-dangling-keys" } else { "raw/idx_topic-misses-keys" };
            fs.push(finding(&["C05", "C04", "C20"], sig, json!({"dangling": dangling, "missing": missing})));
        }
        if got_ctx != exp_ctx {
            let dangling: Vec<String> = got_ctx.difference(&exp_ctx).take(3).map(|k| crate::session::hex(k)).collect();
            let missing: Vec<String> = exp_ctx.difference(&got_ctx).take(3).map(|k| crate::session::hex(k)).collect();
            let sig = if !dangling.is_empty() { "raw/idx_context-has-dangling-keys" } else { "raw/idx_context-misses-keys" };
            fs.push(finding(&["C05", "C04", "C20"], sig, json!({"dangling": dangling, "missing": missing})));
        }
        self.res.countn("observations.raw_keys", (raw_ids.len() + got_topic.len() + got_ctx.len()) as u64);
        // raw presence against the model
        for id in &raw_ids {
            match self.model.frames.get(id) {
                None => {
                    let props: &[&'static str] = if self.model.ephemerals.contains_key(id) { &["C09"] } else { &["C07", "C05"] };
                    let sig = if self.model.ephemerals.contains_key(id) { "raw/ephemeral-frame-was-stored" } else { "raw/frame-the-model-never-accepted" };
                    fs.push(finding(props, sig, json!({"id": id_str(*id)})));
                }
                Some(m) => {
                    if self.model.physical(m) == P3::Gone && !m.observed_gone {
                        let why = if m.removed { "removed" } else { "expired-scanned-drained" };
                        fs.push(finding(
                            if m.removed { &["C05", "C01"] } else { &["C09"] },
                            format!("raw/frame-still-stored-that-must-be-gone/{}", why),
                            json!({"frame": m.frame, "flags": flags_of(m)}),
                        ));
                    }
                }
            }
        }
        for (id, m) in &self.model.frames {
            if self.model.physical(m) == P3::Must && !raw_ids.contains(id) {
                fs.push(finding(&["C08", "C01"], "raw/stored-frame-vanished", json!({"frame": m.frame, "flags": flags_of(m)})));
            }
        }
        fs
    }

    /// C09 A.5 after a drain + sweep: head:N enforcement
    pub fn check_head_enforced(&mut self) -> R<()> {
        self.op_drain()?;
        let v = self.call(json!({"op": "read_sync", "digest": true}))?;
        let obs = parse_pairs(&v["frames"]);
        let fs0 = self.model.check_read("read_sync", None, None, None, &obs);
        let step = self.step;
        self.res.add(step, fs0);
        let present: BTreeSet<u128> = obs.iter().map(|x| x.0).collect();
        let mut groups: BTreeMap<(u128, String), Vec<u128>> = BTreeMap::new();
        for (id, m) in &self.model.frames {
            groups.entry((m.frame.context_id.to_u128(), m.frame.topic.clone())).or_default().push(*id);
        }
        let mut fs = vec![];
        for ((c, t), ids) in &groups {
            let readable: Vec<u128> = ids.iter().copied().filter(|i| present.contains(i)).collect();
            let Some(newest) = readable.last() else { continue };
            let nm = &self.model.frames[newest];
            // only when the newest *accepted, not removed, not expired* frame of the topic is that head:N frame
            let newest_accepted = ids.iter().rev().find(|i| {
                let m = &self.model.frames[*i];
                !m.removed && !self.model.expired_may(&m.frame)
            });
            if newest_accepted != Some(newest) {
                continue;
            }
            if let Some(TTL::Head(n)) = nm.frame.ttl {
                if nm.imported {
                    continue;
                }
                if !nm.drained_in_era || self.model.gc_interrupted.contains(&(*c, t.clone())) {
                    // the process was restarted between this append and its collection: pending GC work is
                    // not durable and restarts are outside C09's quantifier; recorded as an observation only
                    if readable.len() > n as usize {
                        self.res.count("observations.head_eviction_lost_by_restart");
                    }
                    continue;
                }
                self.res.count("observations.head_groups_checked");
                if readable.len() > n as usize {
                    fs.push(finding(&["C09"], "head-ttl/more-than-N-frames-after-drain", json!({"ctx": id_str(*c), "topic": t, "n": n, "readable": readable.len()})));
                }
                let oldest = readable[0];
                for i in ids {
                    let m = &self.model.frames[i];
                    if *i > oldest && !present.contains(i) && !m.removed && !self.model.expired_may(&m.frame) && !m.may_be_collected {
                        fs.push(finding(&["C09", "C08"], "head-ttl/older-frame-survives-while-newer-was-evicted", json!({"ctx": id_str(*c), "topic": t, "evicted": m.frame, "survivor": id_str(oldest)})));
                    }
                }
            }
        }
        self.res.add(step, fs);
        Ok(())
    }

    fn bulk(&mut self) -> R<()> {
        let backlog = self.profile.name == "c09backlog";
        let n = if backlog { 1150 + self.rng.below(700) as u64 } else { 280 + self.rng.below(60) as u64 };
        let size = if backlog { 8u64 } else { 60_000u64 };
        let ttl: Option<TTL> = if backlog { Some(TTL::Time(Duration::from_millis(1 + self.rng.below(3) as u64))) } else { None };
        let tag = self.rng.below(1000) as u64;
        let ctx = self.pick_ctx_usable();
        let topic = self.pick_topic();
        let v = self.sess.as_mut().unwrap().call_t(
            json!({"op": "bulk", "n": n, "size": size, "tag": tag, "topic": topic, "ctx": id_str(ctx), "ttl": ttl}),
            Duration::from_secs(300),
        )?;
        let pairs = parse_pairs(&v["ok"]);
        self.res.count("ops.bulk");
        self.trace(json!({"bulk": {"n": n, "size": size}}));
        for (i, (id, d)) in pairs.iter().enumerate() {
            let pad: String = std::iter::repeat((b'a' + ((i as u64 + tag) % 26) as u8) as char).take(size as usize).collect();
            let f = Frame::builder(topic.clone(), Scru128Id::from(ctx))
                .id(Scru128Id::from(*id))
                .meta(json!({"bulk": i, "tag": tag, "pad": pad}))
                .maybe_ttl(ttl.clone())
                .build();
            if frame_digest(&f) != *d {
                return Err(SessionError::Harness("bulk digest mismatch between parent and child".into()));
            }
            self.model.on_append(&f);
            self.era_appends.push((*id, *d));
        }
        let lay = self.call(json!({"op": "layout"}))?;
        self.note_layout(&lay);
        Ok(())
    }

    fn note_layout(&mut self, lay: &Value) {
        let files: Vec<String> = lay["files"].as_array().cloned().unwrap_or_default().iter().filter_map(|f| f.as_str().map(|s| s.to_string())).collect();
        let segs = files.iter().filter(|f| f.contains("/segments/")).count();
        let journals = files.iter().filter(|f| f.starts_with("journals/")).count();
        if segs > 0 {
            self.res.seen("layouts_seen", "flushed-segments");
            self.res.flags.insert("flushed");
        } else {
            self.res.seen("layouts_seen", "memtable-only");
        }
        if journals > 1 {
            self.res.seen("layouts_seen", "rotated-journal");
        }
    }

    // ----- driver --------------------------------------------------------------

    pub fn run(&mut self) -> R<()> {
        let len = self.profile.len.0 + self.rng.below(self.profile.len.1 - self.profile.len.0 + 1);
        let p = self.profile.clone();
        let w = [
            p.w_append, p.w_import, p.w_remove, p.w_register, p.w_clock, p.w_drain, p.w_reopen, p.w_kill, p.w_read, p.w_get, p.w_head, p.w_sweep, p.w_probe,
            p.w_badctx_append, p.w_nul,
        ];
        // always a couple of contexts to begin with
        for _ in 0..2 {
            self.gen_register()?;
        }
        let bulk_at = if p.bulk { Some(3 + self.rng.below(4)) } else { None };
        for step in 0..len {
            self.step = step;
            if Some(step) == bulk_at {
                self.bulk()?;
                if p.name == "c09backlog" {
                    // every bulk frame expires; one covering read hands >1024 removals to the collector, and while it
                    // is still busy, head:N appends ask for their own collection
                    let target = self.model.now.max(real_now_ms()) + 5_000;
                    self.call(json!({"op": "clock", "ms": target}))?;
                    self.model.now = target;
                    self.res.count("ops.clock");
                    self.res.flags.insert("clock");
                    self.trace(json!({"clock": target}));
                    self.sweep()?;
                    let ctx = self.pick_ctx_usable();
                    let k = 1 + self.rng.below(2) as u32;
                    for _ in 0..(k + 2) {
                        let req = Frame::builder("hb", Scru128Id::from(ctx)).ttl(TTL::Head(k)).build();
                        self.op_append(req, None)?;
                    }
                    // ... and a topic whose N shrinks while its earlier collections are still queued
                    for n in [5u32, 5, 5, 5, 1] {
                        let req = Frame::builder("hd", Scru128Id::from(ctx)).ttl(TTL::Head(n)).build();
                        self.op_append(req, None)?;
                    }
                    self.res.count("backlog.head_appends_while_collector_busy");
                    self.op_drain()?;
                    self.sweep()?;
                    self.check_head_enforced()?;
                    self.res.count("backlog.rounds");
                    continue;
                }
                self.sweep()?;
                continue;
            }
            match self.rng.weighted(&w) {
                0 => self.gen_append()?,
                1 => self.gen_import()?,
                2 => self.gen_remove()?,
                3 => self.gen_register()?,
                4 => self.gen_clock()?,
                5 => self.op_drain()?,
                6 => {
                    self.reopen(false)?;
                    self.sweep()?;
                    self.gen_probe()?;
                }
                7 => {
                    self.reopen(true)?;
                    self.sweep()?;
                    self.gen_probe()?;
                }
                8 => self.gen_read()?,
                9 => self.gen_get()?,
                10 => self.gen_head()?,
                11 => self.sweep()?,
                12 => self.gen_probe()?,
                13 => self.gen_badctx_append()?,
                _ => self.gen_nul()?,
            }
            if self.res.inconclusive.is_some() {
                return Ok(());
            }
        }
        self.step = len;
        self.sweep()?;
        // second pass: what the first sweep scanned must now be collected
        self.sweep()?;
        self.check_head_enforced()?;
        if p.bulk {
            // the same observations after a reopen of the flushed layout
            self.reopen(false)?;
            self.sweep()?;
        }
        let lay = self.call(json!({"op": "layout"}))?;
        self.note_layout(&lay);
        Ok(())
    }
}

/// a nushell double-quoted string literal for arbitrary text
pub fn nu_str(t: &str) -> String {
    let mut o = String::from("\"");
    for c in t.chars() {
        if c.is_ascii_alphanumeric() || c == '.' || c == '-' || c == '_' {
            o.push(c);
        } else {
            o.push_str(&format!("\\u{{{:x}}}", c as u32));
        }
    }
    o.push('"');
    o
}

fn trim_op(op: &Value) -> Value {
    let s = op.to_string();
    if s.len() > 600 {
        json!(format!("{}…", &s[..600]))
    } else {
        op.clone()
    }
}

pub fn run_history(profile: Profile, seed: u64) -> HistoryResult {
    let mut runner = match Runner::new(profile, seed) {
        Ok(r) => r,
        Err(e) => {
            return HistoryResult { inconclusive: Some(format!("session start: {}", e)), ..Default::default() };
        }
    };
    let r = runner.run();
    let mut res = std::mem::take(&mut runner.res);
    match r {
        Ok(()) => {}
        Err(SessionError::Timeout(m)) => res.inconclusive = Some(format!("watchdog: {}", m)),
        Err(SessionError::Harness(m)) => res.inconclusive = Some(format!("harness: {}", m)),
        Err(SessionError::Died(m)) => {
            // a dying store process is an observation about the code under test unless it is resource exhaustion
            if m.contains("No space left") || m.contains("Cannot allocate") {
                res.inconclusive = Some(format!("resources: {}", m));
            } else if !res.findings.iter().any(|f| f.signature.starts_with("reopen/")) {
                res.findings.push(finding(
                    &["C01", "C05", "C07", "C08", "C09", "C12", "C20"],
                    "store-process-died",
                    json!({"step": runner.step, "message": m.chars().take(1500).collect::<String>()}),
                ));
            }
        }
    }
    // non-triviality flags
    if res.counters.get("ops.remove").copied().unwrap_or(0) > 0 {
        res.flags.insert("remove");
    }
    if res.counters.get("ops.clock").copied().unwrap_or(0) > 0 {
        res.flags.insert("clock");
    }
    if runner.ctxs.len() >= 2 {
        res.flags.insert("contexts");
    }
    if res.sets.get("read_shapes").map(|s| s.iter().any(|x| !x.ends_with("limit=none"))).unwrap_or(false) {
        res.flags.insert("bounded-read");
    }
    if res.counters.get("appended.head").copied().unwrap_or(0) > 0 {
        res.flags.insert("head-ttl");
    }
    if res.counters.get("appended.time").copied().unwrap_or(0) > 0 {
        res.flags.insert("time-ttl");
    }
    if res.counters.get("ops.import").copied().unwrap_or(0) > 0 {
        res.flags.insert("import");
    }
    res.hash = fnv(&serde_json::to_string(&res.trace).unwrap_or_default());
    if let Some(s) = runner.sess.take() {
        s.close();
    }
    rm_dir(&runner.dir);
    res
}
