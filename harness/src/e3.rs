//! E3 — crash explorer (C04): record a store session under strace, replay the storage system
//! calls into crash images at every effective syscall boundary (kill, torn-write and power-loss
//! variants, built by crash/replay.py), let the real `Store::new` recover each image in a child
//! process and compare what it shows with the model of the acknowledged operations.

use std::collections::{BTreeMap, BTreeSet};
use std::path::{Path, PathBuf};
use std::process::Command;
use std::time::Duration;

use scru128::Scru128Id;
use serde_json::{json, Value};

use xs::store::{Frame, Store, TTL, ZERO_CONTEXT};

use crate::model::*;
use crate::par::{run_cases, workers};
use crate::report::{fnv, Report};
use crate::rng::{mix, Rng};
use crate::session::{frame_digest, hex, rm_dir, unhex, work_dir, Session, SessionError};

// ---------------------------------------------------------------------------
// recover-dump: open an image with the real Store and print everything the oracle needs
// ---------------------------------------------------------------------------

pub fn recover_dump_main(dir: PathBuf) -> ! {
    let panic_msg = std::sync::Arc::new(std::sync::Mutex::new(String::new()));
    {
        let pm = panic_msg.clone();
        std::panic::set_hook(Box::new(move |info| {
            let mut g = pm.lock().unwrap();
            if g.is_empty() {
                *g = format!("{}", info);
            }
        }));
    }
    let d2 = dir.clone();
    let store = match std::panic::catch_unwind(move || Store::new(d2)) {
        Ok(s) => s,
        Err(_) => {
            println!("{}", json!({"opened": false, "panic": panic_msg.lock().unwrap().clone()}));
            std::process::exit(3);
        }
    };
    let res = std::panic::catch_unwind(std::panic::AssertUnwindSafe(|| {
        let frames: Vec<Frame> = store.read_sync(None, None, None).collect();
        let raw = store.verif_raw_keys();
        let mut ctxs: BTreeSet<Scru128Id> = BTreeSet::new();
        ctxs.insert(ZERO_CONTEXT);
        let mut pairs: BTreeSet<(String, Scru128Id)> = BTreeSet::new();
        for f in &frames {
            ctxs.insert(f.context_id);
            pairs.insert((f.topic.clone(), f.context_id));
            if f.topic == "xs.context" {
                ctxs.insert(f.id);
            }
        }
        let raw_stream: Vec<Value> = raw
            .stream
            .iter()
            .map(|(k, v)| match serde_json::from_slice::<Frame>(v) {
                Ok(f) => json!([hex(k), f.id.to_string(), f.context_id.to_string(), f.topic]),
                Err(e) => json!([hex(k), Value::Null, format!("undecodable: {}", e)]),
            })
            .collect();
        let mut raw_ids: BTreeSet<Scru128Id> = frames.iter().map(|f| f.id).collect();
        for (k, _) in &raw.stream {
            if let Ok(b) = <[u8; 16]>::try_from(&k[..]) {
                raw_ids.insert(Scru128Id::from_bytes(b));
            }
        }
        let ctx_streams: BTreeMap<String, Vec<String>> = ctxs.iter().map(|c| (c.to_string(), store.read_sync(None, None, Some(*c)).map(|f| f.id.to_string()).collect())).collect();
        let gets: BTreeMap<String, bool> = raw_ids.iter().map(|i| (i.to_string(), store.get(i).is_some())).collect();
        let heads: Vec<Value> = pairs.iter().map(|(t, c)| json!([t, c.to_string(), store.head(t, *c).map(|f| f.id.to_string())])).collect();
        let mut cas = BTreeMap::new();
        for f in &frames {
            if let Some(h) = &f.hash {
                let v = match store.cas_read_sync(h) {
                    Ok(b) if crate::cas::sha256_integrity(&b) == h.to_string() => "ok".to_string(),
                    Ok(_) => "mismatch".to_string(),
                    Err(e) => format!("missing: {}", e),
                };
                cas.insert(h.to_string(), v);
            }
        }
        // which context ids accept an append (C07 crash part): done last, it mutates the image
        let probes: BTreeMap<String, bool> = ctxs.iter().map(|c| (c.to_string(), store.append(Frame::builder("probe", *c).build()).is_ok())).collect();
        json!({
            "opened": true,
            "frames": frames,
            "ctx": ctx_streams,
            "get": gets,
            "heads": heads,
            "raw": {"stream": raw_stream, "idx_topic": raw.idx_topic.iter().map(|k| hex(k)).collect::<Vec<_>>(), "idx_context": raw.idx_context.iter().map(|k| hex(k)).collect::<Vec<_>>()},
            "cas": cas,
            "probes": probes,
        })
    }));
    match res {
        Ok(v) => {
            println!("{}", v);
            std::process::exit(0);
        }
        Err(_) => {
            println!("{}", json!({"opened": true, "panic_after_open": panic_msg.lock().unwrap().clone()}));
            std::process::exit(4);
        }
    }
}

fn recover(image: &Path) -> Result<Value, String> {
    // output goes to files next to the image (a pipe would fill up while we poll for the exit)
    let out_path = PathBuf::from(format!("{}.dump.json", image.display()));
    let err_path = PathBuf::from(format!("{}.stderr", image.display()));
    let out_f = std::fs::File::create(&out_path).map_err(|e| e.to_string())?;
    let err_f = std::fs::File::create(&err_path).map_err(|e| e.to_string())?;
    let mut child = Command::new(crate::session::self_exe()).arg("recover-dump").arg(image).stdout(out_f).stderr(err_f).spawn().map_err(|e| e.to_string())?;
    let t0 = std::time::Instant::now();
    let status = loop {
        match child.try_wait() {
            Ok(Some(st)) => break st,
            Ok(None) if t0.elapsed() > Duration::from_secs(90) => {
                let _ = child.kill();
                let _ = child.wait();
                let _ = std::fs::remove_file(&out_path);
                let _ = std::fs::remove_file(&err_path);
                return Err("recovery did not finish within 90 s (killed)".into());
            }
            Ok(None) => std::thread::sleep(Duration::from_millis(3)),
            Err(e) => return Err(e.to_string()),
        }
    };
    let text = std::fs::read_to_string(&out_path).unwrap_or_default();
    let err = std::fs::read_to_string(&err_path).unwrap_or_default();
    let _ = std::fs::remove_file(&out_path);
    let _ = std::fs::remove_file(&err_path);
    let line = text.lines().last().unwrap_or("");
    match serde_json::from_str::<Value>(line) {
        Ok(v) => Ok(v),
        Err(_) => Err(format!("no dump (exit {:?}): stdout {:?} stderr {:?}", status.code(), text.chars().take(200).collect::<String>(), err.chars().rev().take(600).collect::<String>().chars().rev().collect::<String>())),
    }
}

// ---------------------------------------------------------------------------
// recorded history
// ---------------------------------------------------------------------------

#[derive(Clone, Debug)]
enum OpDesc {
    Append { req: Frame, content: bool },
    Import { frame: Frame },
    Remove { id: Scru128Id },
    Drain,
}

struct History {
    dir: PathBuf,
    sess: Option<Session>,
    model: Model,
    k: u64,
    rng: Rng,
    ops: BTreeMap<u64, OpDesc>,
    snapshots: BTreeMap<u64, Model>,
    trace_ops: Vec<Value>,
    ctxs: Vec<Scru128Id>,
}

type R<T> = Result<T, SessionError>;

impl History {
    fn call(&mut self, mut op: Value) -> R<Value> {
        self.k += 1;
        op["k"] = json!(self.k);
        self.sess.as_mut().unwrap().call(op)
    }

    fn usable(&mut self) -> Scru128Id {
        let u: Vec<u128> = self.model.usable_contexts().into_iter().collect();
        Scru128Id::from(*self.rng.pick(&u))
    }

    fn step(&mut self) -> R<()> {
        let live: Vec<u128> = self.model.frames.iter().filter(|(_, m)| self.model.physical(m) != P3::Gone).map(|(i, _)| *i).collect();
        let kind = self.rng.weighted(&[40, 10, 12, 4, 5]);
        let k_next = self.k + 1;
        match kind {
            0 => {
                let topic = *self.rng.pick(&["a", "ab", "t", ""]);
                let ctx = self.usable();
                let pad = *self.rng.pick(&[0usize, 0, 40, 9000, 20_000]);
                // (time:N with N far beyond the run: such a frame is an ordinary frame here, but code that treats
                // TTL kinds differently on the write or remove path is exercised)
                let ttl = match self.rng.below(9) {
                    0 => Some(TTL::Head(1)),
                    1 => Some(TTL::Head(2)),
                    2 => Some(TTL::Forever),
                    3 => Some(TTL::Time(Duration::from_secs(3600))),
                    4 => Some(TTL::Time(Duration::from_secs(864_000))),
                    _ => None,
                };
                let with_content = self.rng.chance(300);
                let req = Frame::builder(topic, ctx).meta(json!({"op": k_next, "pad": "p".repeat(pad)})).maybe_ttl(ttl).build();
                let mut op = json!({"op": "append", "frame": req});
                if with_content {
                    op["content_b64"] = json!(crate::session::b64(format!("content of op {} {}", k_next, "c".repeat(self.rng.below(3000))).as_bytes()));
                }
                self.ops.insert(k_next, OpDesc::Append { req: req.clone(), content: with_content });
                let v = self.call(op)?;
                if let Some(fv) = v.get("ok") {
                    let stored: Frame = serde_json::from_value(fv.clone()).map_err(|e| SessionError::Harness(e.to_string()))?;
                    self.model.on_append(&stored);
                }
                self.trace_ops.push(json!({"k": k_next, "append": {"topic": topic, "pad": pad, "ttl": serde_json::to_value(&req.ttl).unwrap(), "content": with_content}}));
            }
            1 => {
                let id = scru128::new().to_u128() - (1 + self.rng.below(1_000_000) as u128);
                if self.model.frames.contains_key(&id) {
                    return Ok(());
                }
                let ctx = self.usable();
                let registration = self.rng.chance(200);
                let frame = if registration {
                    Frame::builder("xs.context", ZERO_CONTEXT).id(Scru128Id::from(id)).meta(json!({"op": k_next})).build()
                } else {
                    Frame::builder(*self.rng.pick(&["a", "imported"]), ctx).id(Scru128Id::from(id)).meta(json!({"op": k_next})).build()
                };
                self.ops.insert(k_next, OpDesc::Import { frame: frame.clone() });
                let v = self.call(json!({"op": "import", "frame": frame}))?;
                if v.get("ok").is_some() {
                    self.model.on_import(&frame);
                    if registration {
                        self.ctxs.push(frame.id);
                    }
                }
                self.trace_ops.push(json!({"k": k_next, "import": {"id": frame.id.to_string(), "registration": registration}}));
            }
            2 if !live.is_empty() => {
                let id = Scru128Id::from(*self.rng.pick(&live));
                self.ops.insert(k_next, OpDesc::Remove { id });
                let v = self.call(json!({"op": "remove", "id": id.to_string()}))?;
                if v.get("ok").is_some() {
                    self.model.on_remove(&id);
                }
                self.trace_ops.push(json!({"k": k_next, "remove": id.to_string()}));
            }
            3 => {
                let req = Frame::builder("xs.context", ZERO_CONTEXT).meta(json!({"op": k_next})).build();
                self.ops.insert(k_next, OpDesc::Append { req: req.clone(), content: false });
                let v = self.call(json!({"op": "append", "frame": req}))?;
                if let Some(fv) = v.get("ok") {
                    let stored: Frame = serde_json::from_value(fv.clone()).map_err(|e| SessionError::Harness(e.to_string()))?;
                    self.ctxs.push(stored.id);
                    self.model.on_append(&stored);
                }
                self.trace_ops.push(json!({"k": k_next, "register": true}));
            }
            _ => {
                self.ops.insert(k_next, OpDesc::Drain);
                self.call(json!({"op": "gc_drain"}))?;
                self.model.on_drain();
                self.trace_ops.push(json!({"k": k_next, "gc_drain": true}));
            }
        }
        let k = self.k;
        self.snapshots.insert(k, self.model.clone());
        Ok(())
    }
}

fn copy_dir(src: &Path, dst: &Path) -> std::io::Result<()> {
    let st = Command::new("cp").arg("-a").arg("--sparse=always").arg(src).arg(dst).status()?;
    if st.success() {
        Ok(())
    } else {
        Err(std::io::Error::new(std::io::ErrorKind::Other, "cp failed"))
    }
}

#[derive(Default)]
pub struct HistOut {
    pub findings: Vec<Finding>,
    pub counters: BTreeMap<String, u64>,
    pub sets: BTreeMap<String, BTreeSet<String>>,
    pub inconclusive: Option<String>,
    pub sample: Option<Value>,
    pub image_hashes: Vec<u64>,
}

fn count(o: &mut HistOut, k: &str, n: u64) {
    *o.counters.entry(k.to_string()).or_insert(0) += n;
}

pub fn run_history(seed: u64, prefix_ops: usize, traced_ops: usize, max_torn: usize, max_points: usize, bulk: bool) -> HistOut {
    let mut out = HistOut::default();
    let root = work_dir("e3");
    let dir = root.join("store");
    let r = (|| -> R<()> {
        // ---- phase A: untraced prefix, clean stop, base copy ------------------------------------
        let mut h = History {
            dir: dir.clone(),
            sess: Some(Session::spawn(&dir, false)?),
            model: Model::default(),
            k: 0,
            rng: Rng::new(seed),
            ops: BTreeMap::new(),
            snapshots: BTreeMap::new(),
            trace_ops: vec![],
            ctxs: vec![],
        };
        for _ in 0..prefix_ops {
            h.step()?;
        }
        if bulk {
            // enough data for a memtable flush + journal rotation inside the traced session later
            let v = h.sess.as_mut().unwrap().call_t(json!({"op": "bulk", "n": 200, "size": 60000, "tag": 7, "topic": "bulk"}), Duration::from_secs(300))?;
            for (i, (id, _)) in parse_pairs(&v["ok"]).iter().enumerate() {
                let pad: String = std::iter::repeat((b'a' + ((i as u64 + 7) % 26) as u8) as char).take(60000).collect();
                let f = Frame::builder("bulk", ZERO_CONTEXT).id(Scru128Id::from(*id)).meta(json!({"bulk": i, "tag": 7, "pad": pad})).build();
                h.model.on_append(&f);
            }
        }
        h.call(json!({"op": "gc_drain"}))?;
        h.model.on_drain();
        h.sess.take().unwrap().close();
        let k0 = h.k;
        h.snapshots.insert(k0, h.model.clone());
        let base = root.join("base");
        copy_dir(&dir, &base).map_err(|e| SessionError::Harness(format!("base copy: {}", e)))?;
        // ---- phase B: traced session ----------------------------------------------------------------
        let trace = root.join("trace");
        h.sess = Some(Session::spawn_traced(&dir, false, &[("XSMON_MARK", "1")], Some(&trace))?);
        for _ in 0..traced_ops {
            h.step()?;
        }
        if bulk {
            let v = h.call(json!({"op": "bulk", "n": 120, "size": 60000, "tag": 9, "topic": "bulk2"}))?;
            for (i, (id, _)) in parse_pairs(&v["ok"]).iter().enumerate() {
                let pad: String = std::iter::repeat((b'a' + ((i as u64 + 9) % 26) as u8) as char).take(60000).collect();
                let f = Frame::builder("bulk2", ZERO_CONTEXT).id(Scru128Id::from(*id)).meta(json!({"bulk": i, "tag": 9, "pad": pad})).build();
                h.model.on_append(&f);
            }
            // a bulk op is not all-or-nothing as a whole: images inside it are compared frame-wise (see evaluate)
            let k = h.k;
            h.ops.insert(k, OpDesc::Drain);
            h.snapshots.insert(k, h.model.clone());
        }
        h.sess.take().unwrap().close();
        count(&mut out, "ops_in_traced_session", traced_ops as u64);
        // ---- images -------------------------------------------------------------------------------------
        let images_dir = root.join("images");
        // replay.py streams image batches; each batch is recovered / judged / deleted before the next is built
        use std::io::{BufRead, BufReader, Write};
        use std::process::Stdio;
        let mut py = Command::new("python3")
            .arg(format!("{}/crash/replay.py", crate::report::VERIF_DIR))
            .arg(&trace)
            .arg(&dir)
            .arg(&images_dir)
            .arg((seed % 1_000_000).to_string())
            .arg(max_torn.to_string())
            .arg(max_points.to_string())
            .arg(&base)
            .env("XSMON_REPLAY_STREAM", "1")
            .stdin(Stdio::piped())
            .stdout(Stdio::piped())
            .stderr(Stdio::piped())
            .spawn()
            .map_err(|e| SessionError::Harness(format!("replay.py: {}", e)))?;
        let mut py_in = py.stdin.take().unwrap();
        let py_out = BufReader::new(py.stdout.take().unwrap());
        let snapshots = std::sync::Arc::new(h.snapshots.clone());
        let ops = std::sync::Arc::new(h.ops.clone());
        let mut pending: Vec<Finding> = vec![];
        let mut n_images = 0usize;
        let mut final_img: Option<String> = None;
        let mut stats = json!({});
        for line in py_out.lines().map_while(Result::ok) {
            let v: Value = match serde_json::from_str(&line) {
                Ok(v) => v,
                Err(_) => continue,
            };
            if v["done"] == true {
                final_img = v["final"].as_str().map(|s| s.to_string());
                stats = v["stats"].clone();
                break;
            }
            let images: Vec<Value> = v["batch"].as_array().cloned().unwrap_or_default();
            let imgs = std::sync::Arc::new(images);
            let n = imgs.len();
            n_images += n;
            let results = {
                let imgs = imgs.clone();
                let snapshots = snapshots.clone();
                let ops = ops.clone();
                run_cases(n, workers(), move |i| {
                    let img = &imgs[i];
                    let dump = recover(Path::new(img["dir"].as_str().unwrap_or("")));
                    let fs = evaluate(img, dump, &snapshots, &ops, k0);
                    let _ = std::fs::remove_dir_all(img["dir"].as_str().unwrap_or(""));
                    fs
                })
            };
            for (i, (fs, in_op)) in results.into_iter().enumerate() {
                let img = &imgs[i];
                let kind = img["kind"].as_str().unwrap_or("?").to_string();
                count(&mut out, &format!("images.{}", kind), 1);
                if in_op {
                    count(&mut out, "images_inside_an_operation", 1);
                    out.image_hashes.push(fnv(&format!("{}|{}|{}|{}", seed, img["point"], kind, img["cut"])));
                }
                out.sets.entry("syscall_kinds_at_crash_points".into()).or_default().insert(img["what"].as_str().unwrap_or("").split(' ').next().unwrap_or("").to_string());
                for mut f in fs {
                    f.detail = json!({"history_seed": seed, "image": {"point": img["point"], "kind": kind, "cut": img["cut"], "after": img["what"], "acked_ops": img["acked"].as_array().map(|a| a.len()), "op_in_flight": img["begun"]}, "what": f.detail, "ops": h.trace_ops.iter().rev().take(30).rev().collect::<Vec<_>>()});
                    pending.push(f);
                }
            }
            let _ = py_in.write_all(b"ok\n");
            let _ = py_in.flush();
        }
        drop(py_in);
        let st = py.wait_with_output().map_err(|e| SessionError::Harness(e.to_string()))?;
        if !st.status.success() || final_img.is_none() {
            let msg = String::from_utf8_lossy(&st.stderr).chars().rev().take(800).collect::<String>().chars().rev().collect::<String>();
            if msg.contains("No space left") {
                out.inconclusive = Some(format!("resources: {}", msg));
                return Ok(());
            }
            return Err(SessionError::Harness(format!("replay.py failed: {}", msg)));
        }
        for (k, v) in stats.as_object().cloned().unwrap_or_default() {
            count(&mut out, &format!("replay.{}", k), v.as_u64().unwrap_or(0));
        }
        // fidelity self-check: the fully replayed image must dump like a copy of the live directory;
        // otherwise nothing this history showed is believed
        let live_copy = root.join("live");
        copy_dir(&dir, &live_copy).map_err(|e| SessionError::Harness(e.to_string()))?;
        let a = recover(Path::new(final_img.as_deref().unwrap_or("")));
        let b = recover(&live_copy);
        match (a, b) {
            (Ok(a), Ok(b)) if a["frames"] == b["frames"] && a["raw"] == b["raw"] && a["cas"] == b["cas"] => {
                count(&mut out, "fidelity_self_checks_passed", 1);
                out.findings.extend(pending);
            }
            (a, b) => {
                out.inconclusive = Some(format!(
                    "fidelity self-check failed (the emulated final image differs from the live directory): replay={} live={}",
                    a.map(|v| v["frames"].as_array().map(|x| x.len()).unwrap_or(0).to_string()).unwrap_or_else(|e| e),
                    b.map(|v| v["frames"].as_array().map(|x| x.len()).unwrap_or(0).to_string()).unwrap_or_else(|e| e)
                ));
                return Ok(());
            }
        }
        let n = n_images;
        let manifest = json!({"stats": stats});
        out.sample = Some(json!({"traced_ops": h.trace_ops.iter().skip(prefix_ops).take(12).collect::<Vec<_>>(), "images": n, "stats": manifest["stats"]}));
        Ok(())
    })();
    match r {
        Ok(()) => {}
        Err(SessionError::Timeout(m)) => out.inconclusive = Some(format!("watchdog: {}", m)),
        Err(SessionError::Harness(m)) => out.inconclusive = Some(format!("harness: {}", m)),
        Err(SessionError::Died(m)) => out.findings.push(finding(&["C04"], "store-process-died-while-recording", json!({"message": m.chars().take(800).collect::<String>()}))),
    }
    rm_dir(&root);
    out
}

/// the oracle for one image (E3 step 5 / Appendix A.9). Returns (findings, crash point lies inside an operation)
fn evaluate(img: &Value, dump: Result<Value, String>, snapshots: &BTreeMap<u64, Model>, ops: &BTreeMap<u64, OpDesc>, k0: u64) -> (Vec<Finding>, bool) {
    let mut fs = vec![];
    let acked = img["acked"].as_array().and_then(|a| a.last()).and_then(|k| k.as_u64()).unwrap_or(k0);
    let begun = img["begun"].as_u64();
    let in_op = begun.is_some();
    let kind = img["kind"].as_str().unwrap_or("");
    let power = kind.starts_with("power");
    let dump = match dump {
        Ok(d) => d,
        Err(e) => {
            fs.push(finding(&["C04"], format!("{}/recovery-produced-no-dump", kind_class(kind)), json!({"error": e})));
            return (fs, in_op);
        }
    };
    if dump["opened"] != true {
        fs.push(finding(&["C04"], format!("{}/store-does-not-reopen", kind_class(kind)), json!({"panic": dump["panic"]})));
        return (fs, in_op);
    }
    if !dump["panic_after_open"].is_null() {
        fs.push(finding(&["C04", "C12"], format!("{}/reads-panic-after-reopen", kind_class(kind)), json!({"panic": dump["panic_after_open"]})));
        return (fs, in_op);
    }
    let Some(m) = snapshots.get(&acked) else {
        return (fs, in_op);
    };
    let f = begun.and_then(|k| ops.get(&k)).cloned();
    let frames: Vec<Frame> = serde_json::from_value(dump["frames"].clone()).unwrap_or_default();
    let observed: BTreeMap<u128, &Frame> = frames.iter().map(|x| (x.id.to_u128(), x)).collect();
    // --- internal consistency: all-or-nothing across the three lookup paths and the raw partitions ---
    {
        let mut exp_topic: BTreeSet<Vec<u8>> = BTreeSet::new();
        let mut exp_ctx: BTreeSet<Vec<u8>> = BTreeSet::new();
        let mut raw_ids: BTreeSet<u128> = BTreeSet::new();
        for e in dump["raw"]["stream"].as_array().cloned().unwrap_or_default() {
            if e[1].is_null() {
                fs.push(finding(&["C04", "C12"], format!("{}/undecodable-stored-frame", kind_class(kind)), json!({"key": e[0], "error": e[2]})));
                continue;
            }
            let id: Scru128Id = e[1].as_str().unwrap_or("").parse().unwrap_or(ZERO_CONTEXT);
            let ctx: Scru128Id = e[2].as_str().unwrap_or("").parse().unwrap_or(ZERO_CONTEXT);
            raw_ids.insert(id.to_u128());
            exp_topic.insert(expected_topic_key(ctx.to_u128(), e[3].as_str().unwrap_or(""), id.to_u128()));
            exp_ctx.insert(expected_context_key(ctx.to_u128(), id.to_u128()));
        }
        let got_topic: BTreeSet<Vec<u8>> = dump["raw"]["idx_topic"].as_array().cloned().unwrap_or_default().iter().map(|k| unhex(k.as_str().unwrap_or(""))).collect();
        let got_ctx: BTreeSet<Vec<u8>> = dump["raw"]["idx_context"].as_array().cloned().unwrap_or_default().iter().map(|k| unhex(k.as_str().unwrap_or(""))).collect();
        if got_topic != exp_topic || got_ctx != exp_ctx {
            fs.push(finding(
                &["C04", "C05"],
                format!("{}/frame-reachable-one-way-but-not-another/index-partitions-out-of-step", kind_class(kind)),
                json!({"stream": raw_ids.len(), "idx_topic": got_topic.len(), "idx_context": got_ctx.len(), "dangling_topic_keys": got_topic.difference(&exp_topic).count(), "missing_topic_keys": exp_topic.difference(&got_topic).count(), "dangling_context_keys": got_ctx.difference(&exp_ctx).count(), "missing_context_keys": exp_ctx.difference(&got_ctx).count()}),
            ));
        }
        for (id, fr) in &observed {
            let by_id = dump["get"][fr.id.to_string()].as_bool().unwrap_or(false);
            let in_ctx = dump["ctx"][fr.context_id.to_string()].as_array().map(|a| a.iter().any(|x| x.as_str() == Some(&fr.id.to_string()))).unwrap_or(false);
            if !by_id || !in_ctx || !raw_ids.contains(id) {
                fs.push(finding(&["C04", "C05"], format!("{}/frame-reachable-one-way-but-not-another", kind_class(kind)), json!({"frame": fr, "by_id": by_id, "context_stream": in_ctx, "raw": raw_ids.contains(id)})));
                break;
            }
        }
        for hd in dump["heads"].as_array().cloned().unwrap_or_default() {
            let (t, c) = (hd[0].as_str().unwrap_or(""), hd[1].as_str().unwrap_or(""));
            let want = frames.iter().filter(|x| x.topic == t && x.context_id.to_string() == c).last().map(|x| x.id.to_string());
            if hd[2].as_str().map(|s| s.to_string()) != want {
                fs.push(finding(&["C04", "C05"], format!("{}/head-disagrees-with-the-stream", kind_class(kind)), json!({"topic": t, "context": c, "head": hd[2], "stream_last": want})));
                break;
            }
        }
    }
    // --- acknowledged operations are fully reflected; the one in flight is all or nothing ---
    // model with the in-flight op applied (its GC consequences included)
    let mut m_af = m.clone();
    let mut f_frame_tag: Option<u64> = None;
    let mut f_import_id: Option<u128> = None;
    let mut f_remove_id: Option<u128> = None;
    match &f {
        Some(OpDesc::Append { req, .. }) => {
            f_frame_tag = req.meta.as_ref().and_then(|x| x.get("op")).and_then(|k| k.as_u64());
            let mut fake = Model::expected_append(req);
            fake.id = Scru128Id::from(u128::MAX - 1);
            m_af.on_append(&fake);
        }
        Some(OpDesc::Import { frame }) => {
            f_import_id = Some(frame.id.to_u128());
            m_af.on_import(frame);
        }
        Some(OpDesc::Remove { id }) => f_remove_id = Some(id.to_u128()),
        _ => {}
    }
    // the next snapshot (if the in-flight op completed) knows the real id of an appended frame
    for (id, fr) in &observed {
        match m.frames.get(id) {
            Some(mf) if m.physical(mf) != P3::Gone => {
                if frame_digest(fr) != mf.digest {
                    fs.push(finding(&["C04"], format!("{}/acknowledged-frame-changed", kind_class(kind)), json!({"expected": mf.frame, "found": fr})));
                }
            }
            Some(mf) => {
                // a removed frame is back
                if Some(*id) != f_import_id {
                    fs.push(finding(&["C04"], format!("{}/acknowledged-remove-undone", kind_class(kind)), json!({"frame": fr, "flags": flags_of(mf)})));
                }
            }
            None => {
                let is_f = fr.meta.as_ref().and_then(|x| x.get("op")).and_then(|k| k.as_u64()) == f_frame_tag && f_frame_tag.is_some() || Some(*id) == f_import_id;
                // bulk frames are written by one multi-frame operation; any prefix of them is fine
                let is_bulk = fr.topic.starts_with("bulk");
                if !is_f && !is_bulk {
                    fs.push(finding(&["C04"], format!("{}/frame-that-was-never-acknowledged-nor-in-flight", kind_class(kind)), json!({"frame": fr, "op_in_flight": begun})));
                }
            }
        }
    }
    for (id, mf) in &m.frames {
        if m.physical(mf) == P3::Must && !observed.contains_key(id) {
            let excused = Some(*id) == f_remove_id || m_af.frames.get(id).map(|x| x.evictable).unwrap_or(false) || mf.frame.topic.starts_with("bulk") && begun.is_some();
            if !excused {
                let sig = if power { "power-loss/acknowledged-write-lost" } else { "process-kill/acknowledged-write-lost" };
                fs.push(finding(&["C04"], sig, json!({"lost": mf.frame, "imported": mf.imported, "acked_ops": acked, "op_in_flight": begun})));
                break;
            }
        }
    }
    // --- content present for every visible frame with a hash (process-kill images only) ---
    if !power {
        for (h, v) in dump["cas"].as_object().cloned().unwrap_or_default() {
            if v != "ok" {
                fs.push(finding(&["C04", "C10"], "process-kill/visible-frame-without-content", json!({"hash": h, "state": v})));
                break;
            }
        }
    }
    // --- usable contexts are a function of the stored frames (C07 crash part) ---
    {
        let regs: BTreeSet<String> = frames.iter().filter(|x| x.topic == "xs.context" && x.context_id == ZERO_CONTEXT).map(|x| x.id.to_string()).collect();
        for (c, ok) in dump["probes"].as_object().cloned().unwrap_or_default() {
            let want = c == ZERO_CONTEXT.to_string() || regs.contains(&c);
            if ok.as_bool() != Some(want) {
                fs.push(finding(&["C04", "C07"], format!("{}/usable-contexts-differ-from-stored-registrations", kind_class(kind)), json!({"context": c, "accepts": ok, "registration_stored": want})));
                break;
            }
        }
    }
    (fs, in_op)
}

fn kind_class(kind: &str) -> &'static str {
    if kind.starts_with("power") {
        "power-loss"
    } else if kind == "torn" {
        "torn-write"
    } else {
        "process-kill"
    }
}

// ---------------------------------------------------------------------------
// live SIGKILL leg: exact kernel semantics, coarser points
// ---------------------------------------------------------------------------

fn live_kill(seed: u64) -> HistOut {
    let mut out = HistOut::default();
    let root = work_dir("e3k");
    let dir = root.join("store");
    let r = (|| -> R<()> {
        let mut h = History { dir: dir.clone(), sess: Some(Session::spawn(&dir, false)?), model: Model::default(), k: 0, rng: Rng::new(seed), ops: BTreeMap::new(), snapshots: BTreeMap::new(), trace_ops: vec![], ctxs: vec![] };
        let n = 5 + h.rng.below(40);
        for _ in 0..n {
            h.step()?;
        }
        // one more operation is sent and the child is killed 0-3 ms later, without waiting for the reply
        let k_next = h.k + 1;
        let req = Frame::builder("t", ZERO_CONTEXT).meta(json!({"op": k_next, "pad": "p".repeat(*h.rng.pick(&[0usize, 9000, 30000]))})).build();
        h.ops.insert(k_next, OpDesc::Append { req: req.clone(), content: true });
        let acked = h.k;
        h.snapshots.insert(acked, h.model.clone());
        let mut s = h.sess.take().unwrap();
        let _ = s.send_only(&json!({"op": "append", "frame": req, "content_b64": crate::session::b64(b"killed content"), "k": k_next}));
        std::thread::sleep(Duration::from_micros(h.rng.range(0, 3000)));
        s.kill();
        let dump = recover(&dir);
        let img = json!({"acked": [acked], "begun": k_next, "kind": "kill", "point": "live", "what": "SIGKILL"});
        let (fs, _) = evaluate(&img, dump, &h.snapshots, &h.ops, 0);
        for mut f in fs {
            f.signature = f.signature.replace("process-kill/", "live-sigkill/");
            f.detail = json!({"what": f.detail, "ops": h.trace_ops.iter().rev().take(20).rev().collect::<Vec<_>>()});
            out.findings.push(f);
        }
        count(&mut out, "live_sigkills", 1);
        out.image_hashes.push(fnv(&format!("live{}", seed)));
        Ok(())
    })();
    if let Err(e) = r {
        out.inconclusive = Some(format!("{}", e));
    }
    rm_dir(&root);
    out
}

pub fn run(tier: &str, seed: u64) -> i32 {
    let t = tier == "thorough";
    let mut rep = Report::new(
        "C04",
        tier,
        seed,
        "fault_enumeration",
        "a generated history (appends with small and >8 KiB frames, with and without content, head:1/head:2 appends whose GC deletes, removes, imports incl. context registrations, GC drains) runs against the real store: a prefix untraced, then a session under `strace -f`; the ordered log of storage syscalls and acknowledgement lines is replayed by a file-system emulator and an image is materialised after every syscall that changed the store (kill image), for cuts inside each journal/segment write (torn image) and with per-file data after the last fsync dropped or partially kept (power-loss images, stated model); the real Store::new recovers every image in a child process and the result is compared with the model of the acknowledged operations plus at most the one in flight (all or nothing), the three lookup paths and the raw partitions must agree, content must exist for every visible hash (kill images) and the accept/reject of appends per context id must follow the stored registrations; a fidelity self-check compares the fully replayed image with the live directory; plus live SIGKILLs 0-3 ms after sending an operation; non-trivial = image whose crash point lies between an operation's begin marker and its acknowledgement; distinct by (history, point, kind, cut)",
    );
    rep.assumptions = vec![
        "within a recorded execution every effective syscall boundary is enumerated; across executions it is sampling".into(),
        "power-loss images follow a stated model: per file, bytes after the last completed fsync/fdatasync are dropped or kept up to a seeded prefix; directory operations are kept".into(),
        "CAS content is written through mmap and is invisible to strace: content files are copied from the live directory once their publishing rename has happened (sound for process kills, not claimed for power loss)".into(),
        "GC deletions are asynchronous: a frame that the head:K policy allows to evict may be present or absent in an image".into(),
    ];
    let (hists, prefix, traced, torn, points, kills) = if t { (8usize, 25usize, 60usize, 48usize, 100_000usize, 200usize) } else { (2, 15, 30, 10, 260, 24) };
    // strace availability
    let strace_ok = Command::new("strace").arg("-V").output().map(|o| o.status.success()).unwrap_or(false);
    if strace_ok {
        for hno in 0..hists {
            let bulk = t && hno == hists - 1;
            // the flushed-layout history carries ~20 MB per image: fewer points and cuts there
            let o = run_history(mix(seed, 400 + hno as u64), prefix, if bulk { 12 } else { traced }, if bulk { 3 } else { torn }, if bulk { 120 } else { points }, bulk);
            absorb(&mut rep, o);
        }
    } else {
        rep.extra.insert("degraded".into(), json!("no ptrace/strace: live SIGKILL leg only"));
    }
    let outs = run_cases(kills, workers(), move |i| live_kill(mix(seed, 9000 + i as u64)));
    for o in outs {
        absorb(&mut rep, o);
    }
    // the HTTP append path (body streamed into the content store, then the frame): writers over parallel connections,
    // SIGKILL of the server in mid-traffic, reopen; every visible frame with a hash must have its content (the kill
    // cases of C10, counted here for the clause of this property they decide)
    let http_kills = if t { 60 } else { 8 };
    let outs = run_cases(http_kills, 8, move |i| crate::c10::run_case(mix(seed, 9500 + i as u64), 2));
    for r in outs {
        rep.eval();
        if let Some(w) = &r.inconclusive {
            rep.inconclusive(format!("http kill case: {}", w));
        }
        rep.count("http_kill_cases", 1);
        rep.count("http_kill.frames_checked_after_kill", r.counters.get("frames_checked_after_kill").copied().unwrap_or(0));
        for f in r.findings {
            if f.props.contains(&"C04") {
                rep.violation(format!("C04/http-kill/{}", f.signature), json!({"engine": "E5/C10 kill case", "finding": f.detail, "refutes": f.props}));
            }
        }
    }
    rep.require("frames checked after an HTTP-path kill", rep.counters.get("http_kill.frames_checked_after_kill").copied().unwrap_or(0) > 0);
    rep.require("images recovered", strace_ok && rep.counters.get("images.kill").copied().unwrap_or(0) > 0 || !strace_ok);
    rep.require("fidelity self-check passed", !strace_ok || rep.counters.get("fidelity_self_checks_passed").copied().unwrap_or(0) > 0);
    rep.require("live kills", rep.counters.get("live_sigkills").copied().unwrap_or(0) > 0);
    rep.finish()
}

fn absorb(rep: &mut Report, o: HistOut) {
    rep.eval();
    rep.merge_counts(&o.counters);
    // every image is an evaluation of its own
    let imgs: u64 = o.counters.iter().filter(|(k, _)| k.starts_with("images.")).map(|(_, v)| *v).sum();
    rep.evaluations += imgs;
    for (k, set) in &o.sets {
        for v in set {
            rep.seen(k, v.clone());
        }
    }
    for h in &o.image_hashes {
        rep.nontrivial(*h);
    }
    if let Some(w) = &o.inconclusive {
        rep.inconclusive(w.clone());
    }
    if let Some(s) = o.sample {
        rep.sample(s);
    }
    for f in o.findings {
        if f.props.contains(&"C04") {
            rep.violation(format!("C04/{}", f.signature), json!({"engine": "E3", "finding": f.detail, "refutes": f.props}));
        }
    }
}
