//! ThreadSanitizer leg (thorough tier of C02 / C03 / C11): the same rounds, with the same client-boundary
//! oracles, executed by a copy of this harness built with `-Zsanitizer=thread -Zbuild-std`.  Two things come
//! out of it: (1) the round oracles run under a very different schedule (TSan slows threads 5-15x unevenly),
//! (2) the race reports, summarised by where the racing accesses are.  None of the twenty properties is a
//! data-race property, so a report is an observation, never a verdict; reports whose racing accesses are both
//! inside crossbeam-epoch are the known fence-based-reclamation limitation of TSan.
use std::collections::BTreeMap;
use std::path::PathBuf;
use std::process::{Command, Stdio};

const SKIP: &[&str] = &["/rustlib/src/rust/library/", "compiler-rt", "tsan_"];

pub fn target_dir() -> String {
    format!("{}/target-tsan", crate::report::VERIF_DIR)
}

/// Build (or refresh) the instrumented harness from /repo's current tree. Err = leg not available.
pub fn build() -> Result<PathBuf, String> {
    let root = crate::report::VERIF_DIR;
    let out = Command::new("timeout")
        .args(["-k", "10", "2400", "cargo", "+nightly", "build", "-Zbuild-std", "--target", "x86_64-unknown-linux-gnu", "--release", "--bin", "xsmon"])
        .current_dir(format!("{}/harness", root))
        .env("RUSTFLAGS", "-Zsanitizer=thread")
        .env("CARGO_TARGET_DIR", target_dir())
        .env("CARGO_NET_OFFLINE", "true")
        .stdin(Stdio::null())
        .output()
        .map_err(|e| format!("cargo: {}", e))?;
    if !out.status.success() {
        let err = String::from_utf8_lossy(&out.stderr);
        let tail: Vec<&str> = err.lines().rev().take(6).collect();
        return Err(format!("instrumented build failed ({:?}): {}", out.status.code(), tail.into_iter().rev().collect::<Vec<_>>().join(" | ")));
    }
    let exe = PathBuf::from(format!("{}/x86_64-unknown-linux-gnu/release/xsmon", target_dir()));
    if exe.exists() {
        Ok(exe)
    } else {
        Err("instrumented binary missing after build".into())
    }
}

fn first_external(block: &[&str]) -> Option<(String, String)> {
    for l in block {
        let t = l.trim_start();
        if !t.starts_with('#') {
            continue;
        }
        // "#N function path:line[:col] (module+off)"
        let Some(paren) = t.rfind(" (") else { continue };
        let body = &t[..paren];
        let Some(sp) = body.rfind(' ') else { continue };
        let loc = &body[sp + 1..];
        if !loc.starts_with('/') {
            continue;
        }
        if SKIP.iter().any(|s| loc.contains(s)) {
            continue;
        }
        let path = loc.split(':').next().unwrap_or(loc).to_string();
        let line = loc.split(':').nth(1).unwrap_or("?").to_string();
        return Some((path, line));
    }
    None
}

fn owner(path: &str) -> String {
    if let Some(i) = path.find("/registry/src/") {
        let rest = &path[i + "/registry/src/".len()..];
        let mut parts = rest.split('/');
        parts.next();
        return parts.next().unwrap_or("?").to_string();
    }
    if let Some(r) = path.strip_prefix("/repo/") {
        return format!("xs:{}", r);
    }
    if path.contains("/harness/src/") {
        return "xsmon".into();
    }
    path.rsplit('/').next().unwrap_or(path).to_string()
}

#[derive(Default)]
pub struct Summary {
    pub total: u64,
    /// kind | owner of access 1 | owner of access 2 -> count
    pub by_site: BTreeMap<String, u64>,
    /// reports where a racing access itself is in /repo/src
    pub in_xs: Vec<String>,
}

pub fn summarise(dir: &std::path::Path) -> Summary {
    let mut s = Summary::default();
    let Ok(rd) = std::fs::read_dir(dir) else { return s };
    for e in rd.flatten() {
        let name = e.file_name().to_string_lossy().to_string();
        if !name.starts_with("tsan.") {
            continue;
        }
        let Ok(txt) = std::fs::read_to_string(e.path()) else { continue };
        for rep in txt.split("==================") {
            let Some(w) = rep.find("WARNING: ThreadSanitizer: ") else { continue };
            let kind = rep[w + 26..].split(" (").next().unwrap_or("?").trim().to_string();
            let lines: Vec<&str> = rep.lines().collect();
            // access blocks start at lines that are indented by two spaces and are not frames
            let mut blocks: Vec<Vec<&str>> = vec![];
            for l in &lines {
                let is_frame = l.trim_start().starts_with('#');
                if l.starts_with("  ") && !l.starts_with("   ") && !is_frame {
                    blocks.push(vec![]);
                } else if is_frame {
                    if let Some(b) = blocks.last_mut() {
                        b.push(l);
                    }
                }
            }
            let mut owners = vec![];
            for b in blocks.iter().take(2) {
                match first_external(b) {
                    Some((p, line)) => {
                        let o = owner(&p);
                        if o.starts_with("xs:") {
                            s.in_xs.push(format!("{} at {}:{}", kind, o, line));
                        }
                        owners.push(o);
                    }
                    None => owners.push("?".into()),
                }
            }
            s.total += 1;
            *s.by_site.entry(format!("{} | {}", kind, owners.join(" | "))).or_insert(0) += 1;
        }
    }
    s.in_xs.sort();
    s.in_xs.dedup();
    s
}
