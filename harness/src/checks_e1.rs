//! Checks decided by E1: C01, C05, C07, C08, C09.
use serde_json::json;

use crate::e1::{profile, run_history, HistoryResult};
use crate::par::{run_cases, workers};
use crate::report::Report;
use crate::rng::mix;

fn plan(prop: &str, tier: &str) -> Vec<(&'static str, usize)> {
    let t = tier == "thorough";
    match prop {
        "C01" => vec![("c01", if t { 12000 } else { 400 }), ("c01dense", if t { 12000 } else { 400 }), ("c01bulk", if t { 32 } else { 3 })],
        "C05" => vec![("c05", if t { 16000 } else { 600 }), ("c01bulk", if t { 8 } else { 1 })],
        "C07" => vec![("c07", if t { 16000 } else { 600 })],
        "C08" => vec![("c08", if t { 24000 } else { 800 })],
        "C09" => vec![("c09", if t { 24000 } else { 800 }), ("c09backlog", if t { 96 } else { 6 })],
        _ => vec![],
    }
}

fn nontrivial(prop: &str, r: &HistoryResult) -> bool {
    let f = &r.flags;
    match prop {
        "C01" => f.contains("remove") && f.contains("clock") && f.contains("contexts") && f.contains("bounded-read"),
        "C05" => f.contains("remove") && f.contains("import") && f.contains("contexts") && r.counters.get("observations.heads").copied().unwrap_or(0) > 0,
        "C07" => f.contains("contexts") && r.counters.get("rejected.context-not-registered").copied().unwrap_or(0) > 0 && (f.contains("reopened") || r.counters.get("ctx.unregistered").copied().unwrap_or(0) > 0),
        "C08" | "C09" => f.contains("time-ttl") && f.contains("head-ttl") && f.contains("clock"),
        _ => true,
    }
}

fn rule(prop: &str) -> &'static str {
    match prop {
        "C01" => "seeded operation histories (append/import/remove/register/clock/gc-drain/reopen/kill-reopen/bulk + reads of every (path, scope, last-id class, limit class) + get/head/sweeps) against a real store in a child process, compared with the reference model after every step; non-trivial = history with >=1 remove, >=1 clock advance past/near an expiry, >=2 contexts and >=1 bounded read; distinct by hash of the executed op trace",
        "C05" => "histories over adversarial topics (prefix-related, empty, 0x01/0x7f/0x80/0xff-adjacent, multi-byte, 300 B) and adjacent context ids with appends, imports, removes, head:K GC, reopen, NUL-topic attempts; at every sweep by-id/all-stream/context-stream agreement, head exactness over (topic x context) pairs and the raw three-partition invariant; non-trivial = history with removes, imports, >=2 contexts and head checks; distinct by op-trace hash",
        "C07" => "histories of context registrations (all requested TTLs), removals and imports of registration frames, appends into registered / never-registered / unregistered-again / adjacent context ids, probes of every known context id, clean and SIGKILL reopen; non-trivial = history with a rejected append into an unusable context and a reopen or an unregistration; distinct by op-trace hash",
        "C08" => "TTL-heavy histories (forever/ephemeral/time:N/head:K on prefix-related topics in several contexts) with a virtual clock placed at ts+N-1 / ts+N / ts+N+1 of live frames, reads interleaved with GC drains and reopen; must-survive oracle; non-trivial = history with time and head TTLs and a clock advance; distinct by op-trace hash",
        "C09" => "same histories as C08 (no imports); must-be-gone oracle: ephemeral delivered live and never stored, time:N hidden from both read paths after ts+N+1 and physically gone after a covering read + drain, head:N enforced after drain; non-trivial = history with time and head TTLs and a clock advance; distinct by op-trace hash",
        _ => "",
    }
}

pub fn run(prop: &'static str, tier: &str, seed: u64) -> i32 {
    let mut rep = Report::new(prop, tier, seed, "exploration", rule(prop));
    rep.assumptions = vec![
        "the reference model (harness/src/model.rs) states the property correctly; it is three-valued where the statement leaves freedom (expired-uncollected, evictable, exact expiry millisecond)".into(),
        "TTL expiry is driven by the verif clock override; frame ids still carry real timestamps".into(),
        "every history runs against the real Store in a child process; reopen = new process".into(),
    ];
    let mut case_base = 0u64;
    for (pname, n) in plan(prop, tier) {
        let p = profile(pname);
        let base = case_base;
        let results = run_cases(n, workers(), move |i| {
            let s = mix(seed, base + i as u64);
            (s, run_history(p.clone(), s))
        });
        case_base += n as u64;
        for (s, r) in results {
            rep.eval();
            if let Some(why) = &r.inconclusive {
                rep.inconclusive(format!("{} seed {}: {}", pname, s, why));
            }
            rep.merge_counts(&r.counters);
            for (k, set) in &r.sets {
                for v in set {
                    rep.seen(k, v.clone());
                }
            }
            if nontrivial(prop, &r) && r.inconclusive.is_none() {
                rep.nontrivial(r.hash);
            }
            if rep.samples.len() < 3 && r.trace.len() > 10 {
                rep.sample(json!({"profile": pname, "case_seed": s, "ops": r.trace.iter().take(40).collect::<Vec<_>>()}));
            }
            for f in r.findings {
                if f.props.contains(&prop) {
                    rep.violation(
                        format!("{}/{}", prop, f.signature),
                        json!({"engine": "E1", "profile": pname, "case_seed": s, "finding": f.detail, "refutes": f.props, "ops": r.trace.iter().rev().take(60).rev().collect::<Vec<_>>()}),
                    );
                }
            }
        }
    }
    if prop == "C05" {
        // head lookups while the newest frames of the topic are being removed
        let rounds = if tier == "thorough" { 240u64 } else { 12 };
        let per = 6u64;
        let batches: Vec<Vec<serde_json::Value>> = run_cases((rounds / per) as usize, 4, move |b| crate::checks_e2::run_worker("c05race", seed ^ 0xc05, b as u64 * per, per));
        for batch in batches {
            for r in batch {
                rep.eval();
                if let Some(e) = r.get("worker_error") {
                    rep.inconclusive(format!("{}", e));
                    continue;
                }
                if r["panics"].as_u64().unwrap_or(0) > 0 || r["harness_panic"] == true {
                    rep.violation("C05/race/panic-during-round".to_string(), json!({"round": r}));
                }
                rep.count("race.head_lookups_during_removals", r["race.head_lookups_during_removals"].as_u64().unwrap_or(0));
                rep.count("race.removals", r["race.removals"].as_u64().unwrap_or(0));
                for v in r["violations"].as_array().cloned().unwrap_or_default() {
                    rep.violation(format!("C05/{}", v["signature"].as_str().unwrap_or("?")), json!({"engine": "E2", "round_seed": r["seed"], "finding": v["detail"]}));
                }
            }
        }
        rep.require("head lookups raced removals", rep.counters.get("race.head_lookups_during_removals").copied().unwrap_or(0) > 0);
    }
    if prop == "C07" {
        // the same accept/reject rule with a registration being removed while other threads append into its context
        let rounds = if tier == "thorough" { 480u64 } else { 12 };
        let per = 6u64;
        let batches: Vec<Vec<serde_json::Value>> = run_cases((rounds / per) as usize, 4, move |b| crate::checks_e2::run_worker("c07race", seed ^ 0xc07, b as u64 * per, per));
        for batch in batches {
            for r in batch {
                rep.eval();
                if let Some(e) = r.get("worker_error") {
                    rep.inconclusive(format!("{}", e));
                    continue;
                }
                if r["panics"].as_u64().unwrap_or(0) > 0 || r["harness_panic"] == true {
                    rep.violation("C07/race/panic-during-round".to_string(), json!({"round": r}));
                }
                rep.count("race.trials", r["race.trials"].as_u64().unwrap_or(0));
                rep.count("race.appends_called_after_the_registration_was_gone", r["race.appends_called_after_the_registration_was_gone"].as_u64().unwrap_or(0));
                for v in r["violations"].as_array().cloned().unwrap_or_default() {
                    rep.violation(format!("C07/{}", v["signature"].as_str().unwrap_or("?")), json!({"engine": "E2", "round_seed": r["seed"], "finding": v["detail"]}));
                }
            }
        }
        rep.require("appends raced a registration removal", rep.counters.get("race.appends_called_after_the_registration_was_gone").copied().unwrap_or(0) > 0);
    }
    rep.require("ops executed", rep.counters.get("ops.append").copied().unwrap_or(0) > 0);
    rep.require("sweeps executed", rep.counters.get("ops.sweep").copied().unwrap_or(0) > 0);
    if prop == "C01" {
        let l = rep.sets.get("layouts_seen").cloned().unwrap_or_default();
        rep.require("layout: flushed segments reached", l.contains("flushed-segments"));
        rep.require("layout: reopen reached", rep.counters.get("ops.reopen").copied().unwrap_or(0) > 0);
    }
    rep.finish()
}
