//! Driver for the E5-based checks (C14–C19, C06, C10, C20): runs cases in parallel, aggregates.
use serde_json::json;

use crate::e5::CaseResult;
use crate::par::{run_cases, workers};
use crate::report::Report;
use crate::rng::mix;

pub struct Plan {
    pub prop: &'static str,
    pub level: &'static str,
    pub rule: &'static str,
    pub quick: usize,
    pub thorough: usize,
    pub par: usize,
    pub assumptions: Vec<&'static str>,
    pub required: Vec<&'static str>,
}

pub fn run(plan: Plan, tier: &str, seed: u64, case: impl Fn(u64, usize) -> CaseResult + Send + Sync + 'static) -> i32 {
    let n = if tier == "thorough" { plan.thorough } else { plan.quick };
    let mut rep = Report::new(plan.prop, tier, seed, plan.level, plan.rule);
    rep.assumptions = plan.assumptions.iter().map(|s| s.to_string()).collect();
    let salt = crate::report::fnv(plan.prop);
    let results = run_cases(n, plan.par.min(workers()), move |i| {
        let s = mix(seed ^ salt, i as u64);
        (s, i, case(s, i))
    });
    let prop = plan.prop;
    for (s, idx, r) in results {
        rep.eval();
        if let Some(why) = &r.inconclusive {
            rep.inconclusive(format!("case seed {}: {}", s, why));
        }
        rep.merge_counts(&r.counters);
        for (k, set) in &r.sets {
            for v in set {
                rep.seen(k, v.clone());
            }
        }
        if r.nontrivial && r.inconclusive.is_none() {
            rep.nontrivial(r.hash);
        }
        if let Some(smp) = r.sample {
            if rep.samples.len() < 3 {
                rep.sample(json!({"case_seed": s, "case": smp}));
            }
        }
        for f in r.findings {
            if f.props.contains(&prop) {
                rep.violation(format!("{}/{}", prop, f.signature), json!({"engine": "E5", "case_seed": s, "case_index": idx, "finding": f.detail, "refutes": f.props}));
            }
        }
    }
    for k in &plan.required {
        rep.require(k, rep.counters.get(*k).copied().unwrap_or(0) > 0);
    }
    rep.finish()
}
