//! C20 — export then import reproduces the store: a source store is produced by an E1 history,
//! exported (all-contexts read + CAS reads) and imported into an empty store through POST /cas +
//! POST /import in a seeded permutation with duplicates; the two stores must be observably equal.

use std::collections::BTreeSet;
use std::time::Duration;

use scru128::Scru128Id;
use serde_json::{json, Value};

use xs::store::{Frame, ZERO_CONTEXT};

use crate::e1::{profile, Profile, Runner};
use crate::e5::CaseResult;
use crate::http::{self, Req};
use crate::model::{id_str, P3};
use crate::report::fnv;
use crate::rng::Rng;
use crate::session::SessionError;

fn source_profile() -> Profile {
    let mut p = profile("c05");
    p.name = "c20src";
    p.w_clock = 0;
    p.w_reopen = 1;
    p.w_kill = 0;
    p.w_nul = 1;
    p.w_import = 6;
    p.w_remove = 10;
    p.w_register = 5;
    // (time:N frames of several magnitudes, all far from expiring within a case: they are exported alive and must
    // arrive alive)
    p.time_ns = &[5_000, 120_000, 3_600_000, 1_000_000_000_000];
    p.w_ttl = [5, 3, 1, 4, 4];
    p.head_ks = &[2, 3, u32::MAX];
    p.topics = vec!["a".into(), "ab".into(), "".into(), "a.b".into(), "é".into(), "xs.contextual".into()];
    p.len = (25, 50);
    p
}

pub fn run_case(seed: u64) -> CaseResult {
    let mut res = CaseResult::default();
    match case(seed, &mut res) {
        Ok(()) => {}
        Err(SessionError::Timeout(m)) => res.inconclusive = Some(format!("watchdog: {}", m)),
        Err(SessionError::Harness(m)) => res.inconclusive = Some(format!("harness: {}", m)),
        Err(SessionError::Died(m)) => res.find(&["C20"], "store-process-died", json!({"message": m.chars().take(1200).collect::<String>()})),
    }
    res
}

fn sweep_args(frames: &[Frame], extra_ctx: &[u128]) -> Value {
    let mut ctxs: BTreeSet<String> = BTreeSet::new();
    ctxs.insert(ZERO_CONTEXT.to_string());
    let mut heads: BTreeSet<(String, String)> = BTreeSet::new();
    for f in frames {
        ctxs.insert(f.context_id.to_string());
        heads.insert((f.topic.clone(), f.context_id.to_string()));
        if f.topic == "xs.context" {
            ctxs.insert(f.id.to_string());
        }
    }
    for c in extra_ctx {
        ctxs.insert(id_str(*c));
    }
    for t in ["a", "ab", "", "nothing"] {
        for c in ctxs.clone() {
            heads.insert((t.to_string(), c));
        }
    }
    json!({
        "op": "sweep",
        "ctxs": ctxs.iter().collect::<Vec<_>>(),
        "ids": frames.iter().map(|f| f.id.to_string()).collect::<Vec<_>>(),
        "heads": heads.iter().map(|(t, c)| json!([t, c])).collect::<Vec<_>>(),
    })
}

fn case(seed: u64, res: &mut CaseResult) -> Result<(), SessionError> {
    // ---- source store from an E1 history ------------------------------------------------------
    let mut src = Runner::new(source_profile(), seed)?;
    let r = src.run();
    if let Err(e) = r {
        let _ = src.sess.take().map(|s| s.close());
        crate::session::rm_dir(&src.dir);
        return Err(e);
    }
    src.op_drain_pub()?;
    let v = src.call(json!({"op": "read_sync"}))?;
    let frames: Vec<Frame> = serde_json::from_value(v["frames"].clone()).unwrap_or_default();
    let mut contents: Vec<(String, Vec<u8>)> = vec![];
    for f in &frames {
        if let Some(h) = &f.hash {
            let v = src.call(json!({"op": "cas_read", "hash": h.to_string()}))?;
            if let Some(b) = v["b64"].as_str() {
                if !contents.iter().any(|c| c.0 == h.to_string()) {
                    contents.push((h.to_string(), crate::session::unb64(b)));
                }
            }
        }
    }
    res.count("source_frames", frames.len() as u64);
    res.count("source_contents", contents.len() as u64);
    res.count("source_contexts", frames.iter().map(|f| f.context_id).collect::<BTreeSet<_>>().len() as u64);
    res.count("source_removed_frames", src.model.frames.values().filter(|m| m.removed).count() as u64);

    // ---- target: empty store behind the real HTTP API ------------------------------------------
    let mut tp = profile("c05");
    tp.name = "c20dst";
    let now_s = src.model.now.to_string();
    let mut dst = Runner::new_opt_env(tp, seed ^ 0x20, true, &[("XSMON_CLOCK", &now_s)])?;
    let sock = dst.dir.join("sock");
    let t = Duration::from_secs(30);
    // whatever the server wrote on start-up (xs.start) is not part of the comparison: remove it
    let v = dst.call(json!({"op": "read_sync"}))?;
    for f in serde_json::from_value::<Vec<Frame>>(v["frames"].clone()).unwrap_or_default() {
        dst.call(json!({"op": "remove", "id": f.id.to_string()}))?;
    }
    let mut rng = Rng::new(seed ^ 0xc20);
    // contents first or interleaved; frames in a seeded permutation with ~20 % duplicates
    for (h, bytes) in &contents {
        if bytes.is_empty() {
            // POST /cas refuses an empty body by design: go through the store API for this one
            dst.call(json!({"op": "cas_insert", "b64": ""}))?;
            continue;
        }
        match http::once(&sock, &Req::new("POST", "/cas").body(bytes), t) {
            Ok(r) if r.status == 200 => {
                let got = String::from_utf8_lossy(&r.body).to_string();
                if &got != h {
                    res.find(&["C20", "C10"], "POST-cas/hash-differs-from-the-exported-frame-hash", json!({"got": got, "want": h}));
                }
            }
            Ok(r) => res.find(&["C20"], "POST-cas/refused", json!({"status": r.status})),
            Err(e) => res.find(&["C20", "C13"], "POST-cas/no-response", json!({"error": e.to_string()})),
        }
    }
    let mut order: Vec<usize> = (0..frames.len()).collect();
    rng.shuffle(&mut order);
    let registrations_late = rng.chance(500);
    if registrations_late {
        // context registrations deliberately after the frames that live in those contexts
        order.sort_by_key(|i| frames[*i].topic == "xs.context");
    }
    let dups: Vec<usize> = order.iter().copied().filter(|_| rng.chance(200)).collect();
    let mut seq = order.clone();
    for d in dups {
        let at = rng.below(seq.len() + 1);
        seq.insert(at, d);
    }
    let mut imported: BTreeSet<usize> = BTreeSet::new();
    let mut idempotence_checks = 0u64;
    for i in seq {
        let f = &frames[i];
        let again = imported.contains(&i);
        let raw_before = if again { Some(dst.call(json!({"op": "raw"}))?) } else { None };
        match http::once(&sock, &Req::new("POST", "/import").body(&serde_json::to_vec(f).unwrap()), t) {
            Ok(r) if r.status == 200 => {
                if serde_json::from_slice::<Frame>(&r.body).ok().as_ref() != Some(f) {
                    res.find(&["C20", "C13"], "POST-import/returned-frame-differs", json!({"sent": f}));
                }
            }
            Ok(r) => res.find(&["C20"], "POST-import/refused-a-frame-of-the-export", json!({"frame": f, "status": r.status, "body": String::from_utf8_lossy(&r.body[..r.body.len().min(200)])})),
            Err(e) => res.find(&["C20", "C13"], "POST-import/no-response", json!({"error": e.to_string()})),
        }
        if let Some(before) = raw_before {
            let after = dst.call(json!({"op": "raw"}))?;
            idempotence_checks += 1;
            if before["raw"] != after["raw"] {
                res.find(&["C20"], "import/same-frame-again-changed-the-store", json!({"frame": f}));
            }
        }
        imported.insert(i);
    }
    res.count("idempotence_checks", idempotence_checks);
    // a frame that cannot be stored consistently is rejected whole
    {
        let before = dst.call(json!({"op": "raw"}))?;
        let bad = Frame::builder("bad\0topic", ZERO_CONTEXT).id(scru128::new()).build();
        if let Ok(r) = http::once(&sock, &Req::new("POST", "/import").body(&serde_json::to_vec(&bad).unwrap()), t) {
            if r.status / 100 == 2 {
                res.find(&["C20", "C05"], "import/nul-topic-accepted", json!({"status": r.status}));
            }
        }
        let after = dst.call(json!({"op": "raw"}))?;
        if before["raw"] != after["raw"] {
            res.find(&["C20", "C05"], "import/rejected-frame-left-a-trace", json!({}));
        }
    }
    // ---- observational equality ------------------------------------------------------------------
    let extra: Vec<u128> = src.bogus_ctxs.clone();
    let args = sweep_args(&frames, &extra);
    let a = src.call(args.clone())?;
    let b = dst.call(args)?;
    let mut compared = 0u64;
    for key in ["all", "all_async", "ctx", "ctx_async", "get", "heads", "raw"] {
        compared += 1;
        if a[key] != b[key] {
            let detail = first_difference(&a[key], &b[key]);
            res.find(&["C20"], format!("target-differs-from-source/{}", key), json!({"registrations_imported_last": registrations_late, "difference": detail}));
        }
    }
    // contents
    for (h, bytes) in &contents {
        let v = dst.call(json!({"op": "cas_read", "hash": h}))?;
        compared += 1;
        if v["b64"].as_str().map(crate::session::unb64).as_ref() != Some(bytes) {
            res.find(&["C20", "C10"], "target-differs-from-source/content", json!({"hash": h, "len": bytes.len()}));
        }
    }
    // the import is not broadcast and does not trigger GC: the target's follower saw nothing of it
    // (checked by Runner::sweep through the live follower of the target session)
    let model_frames: Vec<Frame> = frames.clone();
    for f in &model_frames {
        dst.model.on_import(f);
    }
    // ---- the same usable contexts: probe every context id on both --------------------------------
    let mut ctx_ids: BTreeSet<u128> = BTreeSet::new();
    ctx_ids.insert(0);
    for f in &frames {
        ctx_ids.insert(f.context_id.to_u128());
        if f.topic == "xs.context" {
            ctx_ids.insert(f.id.to_u128());
        }
    }
    for c in src.ctxs.iter().chain(src.bogus_ctxs.iter()) {
        ctx_ids.insert(*c);
    }
    for c in ctx_ids {
        let req = Frame::builder("probe", Scru128Id::from(c)).build();
        let ra = src.call(json!({"op": "append", "frame": req}))?;
        let rb = dst.call(json!({"op": "append", "frame": req}))?;
        compared += 1;
        if ra.get("ok").is_some() != rb.get("ok").is_some() {
            let model_says = src.model.usable_contexts().contains(&c);
            res.find(
                &["C20", "C07"],
                "usable-contexts-differ-between-source-and-target",
                json!({"context": id_str(c), "source_accepts": ra.get("ok").is_some(), "target_accepts": rb.get("ok").is_some(), "model_says_usable": model_says, "registrations_imported_last": registrations_late}),
            );
        }
    }
    res.count("observations_compared", compared);
    // findings of the source history itself belong to other properties; only its C20-tagged ones count here
    for f in std::mem::take(&mut src.res.findings) {
        if f.props.contains(&"C20") {
            res.findings.push(f);
        }
    }
    let live = src.model.frames.values().filter(|m| src.model.physical(m) == P3::Must).count();
    res.nontrivial = frames.len() >= 5 && frames.iter().map(|f| f.context_id).collect::<BTreeSet<_>>().len() >= 2 && src.model.frames.values().any(|m| m.removed) && live > 0;
    res.hash = fnv(&serde_json::to_string(&src.res.trace).unwrap_or_default());
    if res.sample.is_none() {
        res.sample = Some(json!({"source_ops": src.res.trace.iter().take(25).collect::<Vec<_>>(), "exported_frames": frames.len(), "contents": contents.len(), "registrations_imported_last": registrations_late}));
    }
    if let Some(s) = src.sess.take() {
        s.close();
    }
    if let Some(s) = dst.sess.take() {
        s.close();
    }
    crate::session::rm_dir(&src.dir);
    crate::session::rm_dir(&dst.dir);

    Ok(())
}

fn first_difference(a: &Value, b: &Value) -> Value {
    match (a, b) {
        (Value::Array(x), Value::Array(y)) => {
            for i in 0..x.len().max(y.len()) {
                if x.get(i) != y.get(i) {
                    return json!({"index": i, "source": x.get(i), "target": y.get(i), "source_len": x.len(), "target_len": y.len()});
                }
            }
            Value::Null
        }
        (Value::Object(x), Value::Object(y)) => {
            for (k, v) in x {
                if y.get(k) != Some(v) {
                    return json!({"key": k, "inner": first_difference(v, y.get(k).unwrap_or(&Value::Null))});
                }
            }
            for k in y.keys() {
                if !x.contains_key(k) {
                    return json!({"key_only_in_target": k});
                }
            }
            Value::Null
        }
        _ => json!({"source": a, "target": b}),
    }
}
