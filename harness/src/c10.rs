//! C10 — content store: byte-exact, content-addressed, present before its frame is observable,
//! and present for every frame visible after a process kill.

use std::sync::atomic::{AtomicBool, Ordering};
use std::sync::{Arc, Mutex};
use std::time::Duration;

use serde_json::{json, Value};

use xs::store::{Frame, ZERO_CONTEXT};

use crate::cas::sha256_integrity;
use crate::e5::*;
use crate::http::{self, Req};
use crate::report::fnv;
use crate::rng::Rng;
use crate::session::{b64, Session};

const WRITER_CMD: &str = r#"{
  run: {|frame|
    let c = (.cas $frame.hash)
    $c | .append w.str
    ($c | into binary) | .append w.bin
    {k: $c} | .append w.rec
    [$c] | each {|x| $x}
  }
}"#;

/// `.append` fed by a byte stream that arrives in pieces (external command output over a pipe)
const STREAM_CMD: &str = r#"{
  run: {|frame|
    ^sh -c "head -c 5000 /dev/zero | tr '\\0' 'a'; sleep 0.03; head -c 20000 /dev/zero | tr '\\0' 'b'; sleep 0.03; head -c 3 /dev/zero | tr '\\0' 'c'" | .append bs.out
    []  | each {|x| $x}
  }
}"#;

const WRITER_HANDLER: &str = r#"{
  run: {|frame|
    if $frame.topic != "hw.in" { return }
    .cas $frame.hash
  }
}"#;

/// reads the content of every frame it is triggered by: an early frame surfaces as an error
const READER_HANDLER: &str = r#"{
  run: {|frame|
    if $frame.topic != "race" { return }
    let c = (.cas $frame.hash)
    {len: ($c | into binary | bytes length), trigger: $frame.id}
  }
}"#;

pub fn run_case(seed: u64, index: usize) -> CaseResult {
    let mut res = CaseResult::default();
    let mode = ["matrix", "race", "kill", "first"][index % 4];
    res.seen("modes", mode);
    let mut srv = match Srv::start("c10") {
        Ok(s) => s,
        Err(e) => {
            res.inconclusive = Some(format!("start: {}", e));
            return res;
        }
    };
    let r = match mode {
        "matrix" => matrix(&mut srv, seed, &mut res),
        "race" => race(&mut srv, seed, &mut res),
        "first" => first_writer(&mut srv, seed, index / 4, &mut res),
        _ => kill(&mut srv, seed, &mut res),
    };
    if let Err(e) = r {
        let stderr = srv.stderr();
        absorb(&mut res, &["C10"], e, stderr);
    }
    res.hash = fnv(&format!("{}{}", mode, seed));
    srv.finish();
    res
}

/// Every frame that carries a hash has its content present, and the content hashes to it.
fn every_hash_has_content(srv: &mut Srv, res: &mut CaseResult, what: &str) -> R<()> {
    let frames: Vec<Frame> = srv.era_log().iter().filter(|f| f.hash.is_some() && !is_synth(f)).cloned().collect();
    for f in frames {
        let h = f.hash.clone().unwrap();
        res.count("frames_with_hash_checked_for_content", 1);
        match srv.cas(&h)? {
            None => res.find(&["C10"], format!("{}/frame-visible-but-its-content-is-not-in-cas", what), json!({"frame": f})),
            Some(b) => {
                if sha256_integrity(&b) != h.to_string() {
                    res.find(&["C10"], format!("{}/content-does-not-hash-to-the-frames-hash", what), json!({"frame": f, "len": b.len()}));
                }
            }
        }
    }
    Ok(())
}

/// A fresh store in which a script entry point is the first writer of some content - in particular of the
/// empty byte string, which the other cases store early through the Store API (and would mask).
fn first_writer(srv: &mut Srv, seed: u64, turn: usize, res: &mut CaseResult) -> R<()> {
    let mut rng = Rng::new(seed);
    let uniq = format!("only-the-script-writes-this-{}", seed);
    let who = ["generator", "command-append", "handler-append", "command-output"][turn % 4];
    res.seen("first_writers", format!("{}/empty+unique", who));
    let mark = match who {
        "generator" => {
            let expr = format!("[\"first\" \"\" \"{}\" \"\"] | each {{|x| $x}}", uniq);
            let sp = srv.must_append("fg.spawn", ZERO_CONTEXT, Some(expr.as_bytes()), None, None)?;
            srv.wait(Duration::from_secs(30), |log| log.iter().any(|f| f.topic == "fg.stop"))?;
            let sid = sp.id.to_string();
            let recvs: Vec<Frame> = srv.era_log().iter().filter(|f| f.topic == "fg.recv" && meta_str(f, "source_id") == Some(&sid)).cloned().collect();
            // first lifecycle only
            let want = ["first", "", uniq.as_str(), ""];
            if recvs.len() < want.len() {
                res.inconclusive = Some(format!("generator produced {} of {} outputs within 30 s", recvs.len(), want.len()));
                return Ok(());
            }
            for (i, w) in want.iter().enumerate() {
                res.count("entry_point_writes_checked", 1);
                if recvs[i].hash.as_ref().map(|h| h.to_string()) != Some(sha256_integrity(w.as_bytes())) {
                    res.find(&["C10", "C18"], "first-writer/hash-is-not-sha256-of-the-documented-rendering/generator_output", json!({"position": i, "frame": recvs[i]}));
                }
            }
            // a generator whose pipeline produces a binary value that is not UTF-8: whether such a value yields a frame at
            // all is not this property's business, but a frame that does appear carries exactly those bytes
            let bin: Vec<u8> = vec![0x66, 0x6f, 0x6f, 0xff, 0xfe, 0x00, 0x62, 0x61, 0x72];
            let bsp = srv.must_append("fgb.spawn", ZERO_CONTEXT, Some(b"[0x[666f6ffffe00626172]] | each {|x| $x}"), None, None)?;
            let bsid = bsp.id.to_string();
            srv.wait(Duration::from_secs(3), |log| log.iter().any(|f| f.topic == "fgb.recv" && meta_str(f, "source_id") == Some(&bsid)))?;
            let brecv: Vec<Frame> = srv.era_log().iter().filter(|f| f.topic == "fgb.recv" && meta_str(f, "source_id") == Some(&bsid)).cloned().collect();
            res.seen("generator_binary_output", if brecv.is_empty() { "no frame" } else { "frame" });
            for f in brecv.iter().take(1) {
                res.count("entry_point_writes_checked", 1);
                let stored = match &f.hash { Some(h) => srv.cas(h)?, None => None };
                if stored.as_deref() != Some(&bin[..]) {
                    res.find(&["C10"], "first-writer/generator-binary-output-stored-with-different-bytes", json!({"frame": f, "produced_len": bin.len(), "stored_len": stored.as_ref().map(|b| b.len())}));
                }
            }
            sp
        }
        "command-append" | "command-output" => {
            let script = if who == "command-append" {
                format!("{{run: {{|frame| \"\" | .append fw.empty; \"{}\" | .append fw.uniq; (\"\" | into binary) | .append fw.emptybin; [] | each {{|x| $x}} }}}}", uniq)
            } else {
                format!("{{run: {{|frame| [\"\" \"{}\"] | each {{|x| $x}} }}}}", uniq)
            };
            srv.must_append("fw.define", ZERO_CONTEXT, Some(script.as_bytes()), None, None)?;
            let c = srv.must_append("fw.call", ZERO_CONTEXT, None, None, None)?;
            let cid = c.id.to_string();
            let done = srv.wait(Duration::from_secs(30), |log| log.iter().any(|f| (f.topic == "fw.complete" || f.topic == "fw.error") && meta_str(f, "frame_id") == Some(&cid)))?;
            if !done || srv.era_log().iter().any(|f| f.topic == "fw.error") {
                res.inconclusive = Some("the writer command did not complete".into());
                return Ok(());
            }
            if who == "command-append" {
                for (topic, w) in [("fw.empty", ""), ("fw.uniq", uniq.as_str()), ("fw.emptybin", "")] {
                    res.count("entry_point_writes_checked", 1);
                    match srv.era_log().iter().find(|f| f.topic == topic).cloned() {
                        None => res.find(&["C10", "C19"], format!("first-writer/frame-missing/{}", topic), json!({})),
                        Some(f) => {
                            if f.hash.as_ref().map(|h| h.to_string()) != Some(sha256_integrity(w.as_bytes())) {
                                res.find(&["C10"], "first-writer/hash-is-not-sha256-of-the-documented-rendering/.append", json!({"frame": f}));
                            }
                        }
                    }
                }
            }
            c
        }
        _ => {
            let script = format!("{{run: {{|frame| if $frame.topic != \"fh.in\" {{ return }}; \"\" | .append fh.empty; \"{}\" }}}}", uniq);
            srv.must_append("fh.register", ZERO_CONTEXT, Some(script.as_bytes()), None, None)?;
            srv.wait(Duration::from_secs(30), |log| log.iter().any(|f| f.topic == "fh.registered"))?;
            let t = srv.must_append("fh.in", ZERO_CONTEXT, None, None, None)?;
            let tid = t.id.to_string();
            let done = srv.wait(Duration::from_secs(30), |log| log.iter().any(|f| (f.topic == "fh.out" || f.topic == "fh.unregistered") && meta_str(f, "frame_id").map(|x| x == tid).unwrap_or(f.topic == "fh.unregistered")))?;
            if !done || srv.era_log().iter().any(|f| f.topic == "fh.unregistered") {
                res.inconclusive = Some("the writer handler did not answer".into());
                return Ok(());
            }
            res.count("entry_point_writes_checked", 1);
            match srv.era_log().iter().find(|f| f.topic == "fh.empty").cloned() {
                None => res.find(&["C10", "C15"], "first-writer/frame-missing/fh.empty", json!({})),
                Some(f) => {
                    if f.hash.as_ref().map(|h| h.to_string()) != Some(sha256_integrity(b"")) {
                        res.find(&["C10"], "first-writer/hash-is-not-sha256-of-the-documented-rendering/handler_.append", json!({"frame": f}));
                    }
                }
            }
            t
        }
    };
    let _ = mark;
    srv.settle(Duration::from_millis(150), Duration::from_secs(5))?;
    every_hash_has_content(srv, res, "first-writer")?;
    // and the same after a restart
    srv.restart(rng.chance(500))?;
    srv.settle(Duration::from_millis(300), Duration::from_secs(10))?;
    every_hash_has_content(srv, res, "first-writer-after-restart")?;
    res.nontrivial = res.counters.get("frames_with_hash_checked_for_content").copied().unwrap_or(0) > 0;
    Ok(())
}

fn byte_strings(rng: &mut Rng) -> Vec<(String, Vec<u8>)> {
    let mut v: Vec<(String, Vec<u8>)> = vec![
        ("empty".into(), vec![]),
        ("1-byte".into(), vec![rng.next() as u8]),
        ("non-utf8".into(), vec![0xff, 0xfe, 0x00, 0x80, 0xc3, 0x28]),
        ("8191".into(), rng.bytes(8191)),
        ("8192".into(), rng.bytes(8192)),
        ("8193".into(), rng.bytes(8193)),
        ("65537".into(), rng.bytes(65537)),
        ("random".into(), { let n = 1 + rng.below(5000); rng.bytes(n) }),
    ];
    if rng.chance(300) {
        v.push(("1MiB".into(), rng.bytes(1 << 20)));
    }
    v
}

fn matrix(srv: &mut Srv, seed: u64, res: &mut CaseResult) -> R<()> {
    let mut rng = Rng::new(seed);
    let sock = srv.dir.join("sock");
    let t = Duration::from_secs(30);
    let mut remembered: Vec<(String, Vec<u8>)> = vec![];
    for (label, bytes) in byte_strings(&mut rng) {
        let want = sha256_integrity(&bytes);
        let mut hashes: Vec<(String, Option<String>)> = vec![];
        // Store API: cas_insert_sync, cas_insert (async), streaming writers (sync / async, several chunk sizes), in
        // a seeded order: whichever comes first is the first writer of this content in this store, and what it
        // reported must be readable right away (a later writer would mask a write that stored nothing)
        let chunk = *rng.pick(&[1usize, 1000, 8192, 100_000]);
        let chunk = if bytes.len() > 50_000 && chunk == 1 { 4096 } else { chunk };
        let mut writers = vec!["cas_insert_sync", "cas_insert", "cas_writer_sync", "cas_writer"];
        for i in (1..writers.len()).rev() {
            writers.swap(i, rng.below(i + 1));
        }
        for (wi, how) in writers.iter().enumerate() {
            let v = match *how {
                "cas_insert_sync" => srv.call(json!({"op": "cas_insert", "b64": b64(&bytes)}))?,
                "cas_insert" => srv.call(json!({"op": "cas_insert", "b64": b64(&bytes), "async": true}))?,
                "cas_writer_sync" => srv.call(json!({"op": "cas_stream_insert", "b64": b64(&bytes), "chunk": chunk}))?,
                _ => srv.call(json!({"op": "cas_stream_insert", "b64": b64(&bytes), "chunk": chunk, "async": true}))?,
            };
            let h = v["hash"].as_str().map(|s| s.to_string());
            if wi == 0 {
                res.seen("first_writers", format!("{}/{}", how, if bytes.is_empty() { "empty" } else { "non-empty" }));
                if let Some(h) = &h {
                    let r = srv.call(json!({"op": "cas_read", "hash": h}))?;
                    if r["b64"].as_str().map(crate::session::unb64) != Some(bytes.clone()) {
                        res.find(&["C10"], format!("first-writer/content-not-readable-by-the-reported-hash/{}", how), json!({"label": label, "len": bytes.len(), "hash": h, "reply": r.get("err")}));
                    }
                }
            }
            hashes.push((how.to_string(), h));
        }
        // HTTP: POST /cas (empty body is a client error by design), POST /{topic} single and chunked
        if !bytes.is_empty() {
            match http::once(&sock, &Req::new("POST", "/cas").body(&bytes), t) {
                Ok(r) if r.status == 200 => hashes.push(("POST /cas".into(), Some(String::from_utf8_lossy(&r.body).to_string()))),
                Ok(r) => res.find(&["C10", "C13"], "POST-cas/refused-non-empty-content", json!({"label": label, "status": r.status})),
                Err(e) => res.find(&["C10", "C13"], "POST-cas/no-response", json!({"label": label, "error": e.to_string()})),
            }
        } else if let Ok(r) = http::once(&sock, &Req::new("POST", "/cas"), t) {
            if r.status / 100 != 4 {
                res.find(&["C10", "C13"], "POST-cas/empty-body-not-a-client-error", json!({"status": r.status}));
            }
        }
        for (how, req) in [("POST /{topic}", Req::new("POST", "/c10").body(&bytes)), ("POST /{topic} chunked", Req::new("POST", "/c10").body(&bytes).chunked(if bytes.len() > 50_000 { 16_384 } else { 777 }))] {
            match http::once(&sock, &req, t) {
                Ok(r) if r.status == 200 => {
                    let f: Option<Frame> = serde_json::from_slice(&r.body).ok();
                    let h = f.as_ref().and_then(|f| f.hash.as_ref().map(|h| h.to_string()));
                    if bytes.is_empty() {
                        if h.is_some() {
                            res.find(&["C10", "C13"], "POST-topic/empty-body-yields-a-hash", json!({"how": how, "hash": h}));
                        }
                    } else {
                        hashes.push((how.into(), h));
                    }
                }
                Ok(r) => res.find(&["C10"], "POST-topic/refused", json!({"how": how, "status": r.status, "label": label})),
                Err(e) => res.find(&["C10"], "POST-topic/no-response", json!({"how": how, "error": e.to_string()})),
            }
        }
        for (how, h) in &hashes {
            res.count("entry_point_writes_checked", 1);
            res.seen("entry_points", how.clone());
            match h {
                Some(h) if *h == want => {}
                other => res.find(&["C10"], format!("hash-is-not-sha256-of-the-bytes/{}", how.replace(' ', "_")), json!({"label": label, "len": bytes.len(), "got": other, "want": want})),
            }
        }
        // read back: Store API and HTTP, byte for byte
        let v = srv.call(json!({"op": "cas_read", "hash": want}))?;
        if v["b64"].as_str().map(crate::session::unb64) != Some(bytes.clone()) {
            res.find(&["C10"], "cas_read/content-differs-or-missing", json!({"label": label, "len": bytes.len(), "reply": v.get("err")}));
        }
        match http::once(&sock, &Req::new("GET", &format!("/cas/{}", want)), t) {
            Ok(r) if r.status == 200 && r.body == bytes => {}
            Ok(r) => res.find(&["C10", "C13"], "GET-cas/content-differs-or-missing", json!({"label": label, "status": r.status, "got_len": r.body.len(), "want_len": bytes.len()})),
            Err(e) => res.find(&["C10", "C13"], "GET-cas/no-response", json!({"label": label, "error": e.to_string()})),
        }
        res.seen("byte_string_classes", label.clone());
        remembered.push((want, bytes));
    }
    // content shared between frames (content-addressed: one file): removing or expiring one frame must not
    // take the content away from the other
    {
        let b1 = format!("shared-by-two-frames-{}", seed).into_bytes();
        let h1 = sha256_integrity(&b1);
        let f1 = http::once(&sock, &Req::new("POST", "/shared.a").body(&b1), t).ok().and_then(|r| serde_json::from_slice::<Frame>(&r.body).ok());
        let f2 = http::once(&sock, &Req::new("POST", "/shared.b").body(&b1), t).ok().and_then(|r| serde_json::from_slice::<Frame>(&r.body).ok());
        if let (Some(f1), Some(_f2)) = (f1, f2) {
            let _ = http::once(&sock, &Req::new("DELETE", &format!("/{}", f1.id)), t);
            srv.call(json!({"op": "gc_drain"}))?;
            let v = srv.call(json!({"op": "cas_read", "hash": h1}))?;
            res.count("shared_content_checks", 1);
            if v["b64"].as_str().map(crate::session::unb64) != Some(b1.clone()) {
                res.find(&["C10"], "shared-content/lost-when-another-frame-with-the-same-content-was-removed", json!({"hash": h1, "reply": v.get("err")}));
            }
        }
        let b2 = format!("shared-under-head-ttl-{}", seed).into_bytes();
        let h2 = sha256_integrity(&b2);
        for _ in 0..2 {
            let _ = http::once(&sock, &Req::new("POST", "/shared.head?ttl=head:1").body(&b2), t);
        }
        srv.call(json!({"op": "gc_drain"}))?;
        let v = srv.call(json!({"op": "cas_read", "hash": h2}))?;
        res.count("shared_content_checks", 1);
        if v["b64"].as_str().map(crate::session::unb64) != Some(b2.clone()) {
            res.find(&["C10", "C09"], "shared-content/lost-when-an-older-frame-with-the-same-content-was-evicted", json!({"hash": h2, "reply": v.get("err")}));
        }
    }
    // script entry points: .append (string / binary / record) and return value in a command, handler return value, generator
    srv.must_append("w.define", ZERO_CONTEXT, Some(WRITER_CMD.as_bytes()), None, None)?;
    srv.must_append("hw.register", ZERO_CONTEXT, Some(WRITER_HANDLER.as_bytes()), None, None)?;
    srv.must_append("bs.define", ZERO_CONTEXT, Some(STREAM_CMD.as_bytes()), None, None)?;
    srv.wait(Duration::from_secs(30), |log| log.iter().any(|f| f.topic == "hw.registered"))?;
    srv.settle(Duration::from_millis(80), Duration::from_secs(5))?;
    let texts: Vec<String> = vec![
        "x".into(),
        "héllo wörld 日本 \u{1F600}".into(),
        "line1\nline2\ttab \"quoted\" \\ backslash".into(),
        "a".repeat(8192),
        (0..3000).map(|i| char::from(b'a' + (i % 26) as u8)).collect::<String>() + &format!("-{}", seed),
        "".into(),
    ];
    let gen_expr = format!("[{}] | each {{|x| $x}}", texts.iter().filter(|t| t.len() < 200 && !t.contains('\n')).map(|t| format!("\"{}\"", t.replace('\\', "\\\\").replace('"', "\\\""))).collect::<Vec<_>>().join(" "));
    let gen_texts: Vec<String> = texts.iter().filter(|t| t.len() < 200 && !t.contains('\n')).cloned().collect();
    let spawn = srv.must_append("cg.spawn", ZERO_CONTEXT, Some(gen_expr.as_bytes()), None, None)?;
    let mut calls = vec![];
    for t in &texts {
        if t.is_empty() {
            continue; // a frame with empty content cannot carry the text to the script through `.cas`
        }
        let c = srv.must_append("w.call", ZERO_CONTEXT, Some(t.as_bytes()), None, None)?;
        let h = srv.must_append("hw.in", ZERO_CONTEXT, Some(t.as_bytes()), None, None)?;
        calls.push((t.clone(), c, h));
    }
    // contents that are not UTF-8 (one of them only after the first 8 KiB): `.cas` hands the script the bytes,
    // `.append` stores them again byte for byte
    let bins: Vec<Vec<u8>> = vec![
        vec![0xff, 0xfe, 0x00, 0x80],
        { let mut b = vec![b'a'; 9000]; b.extend([0xff, 0xfe, 0xc3, 0x28]); b.extend(vec![b'z'; 10]); b },
        { let mut b = "text for a long while ".repeat(800).into_bytes(); b.push(0x80); b },
    ];
    let mut bin_calls = vec![];
    for b in &bins {
        bin_calls.push((b.clone(), srv.must_append("w.call", ZERO_CONTEXT, Some(b), None, None)?));
    }
    let bs_call = srv.must_append("bs.call", ZERO_CONTEXT, None, None, None)?;
    let want_done = calls.len() + bin_calls.len();
    let want_hw = calls.len();
    let ok = srv.wait(Duration::from_secs(40), |log| log.iter().filter(|f| f.topic == "w.complete" || f.topic == "w.error").count() >= want_done && log.iter().filter(|f| f.topic == "hw.out").count() >= want_hw)?;
    if !ok {
        res.inconclusive = Some("script writers did not finish within 40 s".into());
        return Ok(());
    }
    srv.wait(Duration::from_secs(10), |log| log.iter().any(|f| f.topic == "cg.stop"))?;
    let log: Vec<Frame> = srv.era_log().to_vec();
    for (text, call, hin) in &calls {
        let cid = call.id.to_string();
        let raw = sha256_integrity(text.as_bytes());
        let json_text = serde_json::to_string(text).unwrap();
        let expect: Vec<(&str, String, String)> = vec![
            ("w.str", raw.clone(), ".append string"),
            ("w.bin", raw.clone(), ".append binary"),
            ("w.rec", sha256_integrity(serde_json::to_string(&json!({"k": text})).unwrap().as_bytes()), ".append record"),
            ("w.recv", sha256_integrity(json_text.as_bytes()), "command output"),
        ]
        .into_iter()
        .map(|(a, b, c)| (a, b, c.to_string()))
        .collect();
        for (topic, want, how) in expect {
            res.count("entry_point_writes_checked", 1);
            res.seen("entry_points", how.clone());
            match log.iter().find(|f| f.topic == topic && meta_str(f, "frame_id") == Some(&cid)) {
                None => res.find(&["C10", "C19"], format!("script-writer/frame-missing/{}", topic), json!({"text_len": text.len()})),
                Some(f) => {
                    let got = f.hash.as_ref().map(|h| h.to_string());
                    if got.as_deref() != Some(want.as_str()) {
                        res.find(&["C10"], format!("hash-is-not-sha256-of-the-documented-rendering/{}", how.replace(' ', "_")), json!({"topic": topic, "got": got, "want": want, "text": text.chars().take(60).collect::<String>()}));
                    } else if srv.cas(f.hash.as_ref().unwrap())?.is_none() {
                        res.find(&["C10"], format!("content-missing/{}", how.replace(' ', "_")), json!({"frame": f}));
                    }
                }
            }
        }
        let hid = hin.id.to_string();
        res.count("entry_point_writes_checked", 1);
        res.seen("entry_points", "handler return value");
        match log.iter().find(|f| f.topic == "hw.out" && meta_str(f, "frame_id") == Some(&hid)) {
            None => res.find(&["C10", "C15"], "script-writer/frame-missing/hw.out", json!({"text_len": text.len()})),
            Some(f) => {
                let want = sha256_integrity(json_text.as_bytes());
                if f.hash.as_ref().map(|h| h.to_string()).as_deref() != Some(want.as_str()) {
                    res.find(&["C10"], "hash-is-not-sha256-of-the-documented-rendering/handler_return_value", json!({"frame": f, "want": want}));
                }
            }
        }
    }
    for (bytes, call) in &bin_calls {
        let cid = call.id.to_string();
        let raw = sha256_integrity(bytes);
        for (topic, how) in [("w.str", ".cas | .append (non-UTF-8 content)"), ("w.bin", ".cas | into binary | .append (non-UTF-8 content)")] {
            res.count("entry_point_writes_checked", 1);
            res.seen("entry_points", how.to_string());
            match log.iter().find(|f| f.topic == topic && meta_str(f, "frame_id") == Some(&cid)) {
                None => res.find(&["C10", "C19"], format!("script-writer/frame-missing/{}", topic), json!({"binary_len": bytes.len()})),
                Some(f) => {
                    let got = f.hash.as_ref().map(|h| h.to_string());
                    if got.as_deref() != Some(raw.as_str()) {
                        let stored = match &f.hash { Some(h) => srv.cas(h)?.map(|b| b.len()), None => None };
                        res.find(&["C10"], "script-copy-of-non-utf8-content-differs-from-the-original", json!({"topic": topic, "got": got, "want": raw, "original_len": bytes.len(), "stored_len": stored}));
                    }
                }
            }
        }
    }
    // byte-stream input to .append
    {
        srv.wait(Duration::from_secs(20), |log| log.iter().any(|f| (f.topic == "bs.complete" || f.topic == "bs.error") && meta_str(f, "frame_id") == Some(&bs_call.id.to_string())))?;
        let log2: Vec<Frame> = srv.era_log().to_vec();
        let mut want_bytes = vec![b'a'; 5000];
        want_bytes.extend(vec![b'b'; 20000]);
        want_bytes.extend(vec![b'c'; 3]);
        res.count("entry_point_writes_checked", 1);
        res.seen("entry_points", ".append byte stream");
        match log2.iter().find(|f| f.topic == "bs.out") {
            None => {
                let err = log2.iter().find(|f| f.topic == "bs.error").map(|f| f.meta.clone());
                res.inconclusive = Some(format!("byte-stream command produced no frame: {:?}", err));
            }
            Some(f) => {
                let got = f.hash.as_ref().map(|h| h.to_string());
                if got.as_deref() != Some(sha256_integrity(&want_bytes).as_str()) {
                    let stored = match &f.hash { Some(h) => srv.cas(h)?.map(|b| b.len()), None => None };
                    res.find(&["C10"], "hash-is-not-sha256-of-the-documented-rendering/.append_byte_stream", json!({"got": got, "want": sha256_integrity(&want_bytes), "stored_len": stored, "want_len": want_bytes.len()}));
                }
            }
        }
    }
    let sid = spawn.id.to_string();
    let recvs: Vec<&Frame> = log.iter().filter(|f| f.topic == "cg.recv" && meta_str(f, "source_id") == Some(&sid)).collect();
    for (i, t) in gen_texts.iter().enumerate() {
        res.count("entry_point_writes_checked", 1);
        res.seen("entry_points", "generator output");
        match recvs.get(i) {
            Some(f) if f.hash.as_ref().map(|h| h.to_string()) == Some(sha256_integrity(t.as_bytes())) => {}
            other => res.find(&["C10", "C18"], "hash-is-not-sha256-of-the-documented-rendering/generator_output", json!({"position": i, "text": t, "frame": other})),
        }
    }
    every_hash_has_content(srv, res, "matrix")?;
    // the same hashes give the same bytes after a restart
    srv.restart(false)?;
    for (h, bytes) in &remembered {
        let v = srv.call(json!({"op": "cas_read", "hash": h}))?;
        if v["b64"].as_str().map(crate::session::unb64) != Some(bytes.clone()) {
            res.find(&["C10"], "after-restart/content-differs-or-missing", json!({"hash": h, "len": bytes.len()}));
        }
        let v = srv.call(json!({"op": "cas_insert", "b64": b64(bytes)}))?;
        if v["hash"].as_str() != Some(h.as_str()) {
            res.find(&["C10"], "after-restart/same-bytes-give-another-hash", json!({"hash": h, "got": v["hash"]}));
        }
    }
    res.count("restarts", 1);
    res.nontrivial = true;
    if res.sample.is_none() {
        res.sample = Some(json!({"mode": "matrix", "byte_strings": remembered.iter().map(|(h, b)| json!([h, b.len()])).collect::<Vec<_>>(), "script_texts": texts.iter().map(|t| t.len()).collect::<Vec<_>>()}));
    }
    Ok(())
}

/// followers and a handler read the content of every frame the moment they see it
fn race(srv: &mut Srv, seed: u64, res: &mut CaseResult) -> R<()> {
    let mut rng = Rng::new(seed);
    let sock = srv.dir.join("sock");
    srv.call(json!({"op": "hook", "seed": seed, "jitter": [300, 300, ["append."]]}))?;
    srv.must_append("rd.register", ZERO_CONTEXT, Some(READER_HANDLER.as_bytes()), None, None)?;
    srv.wait(Duration::from_secs(30), |log| log.iter().any(|f| f.topic == "rd.registered"))?;
    for i in 0..3 {
        srv.call(json!({"op": "follow_cas_start", "fid": format!("fc{}", i), "query": "follow=true&tail=true"}))?;
    }
    let writers = 2 + rng.below(5);
    let per = 15 + rng.below(25);
    let acks: Arc<Mutex<Vec<(String, String)>>> = Arc::new(Mutex::new(vec![]));
    let mut hs = vec![];
    for w in 0..writers {
        let sock = sock.clone();
        let acks = acks.clone();
        let mut r = Rng::new(seed ^ (w as u64 + 1) * 7919);
        hs.push(std::thread::spawn(move || {
            for s in 0..per {
                let n = *r.pick(&[10usize, 500, 9000, 70_000]);
                let mut body = format!("unique-{}-{}-", w, s).into_bytes();
                body.extend(r.bytes(n));
                let mut req = Req::new("POST", "/race").body(&body);
                if r.chance(400) {
                    req = req.chunked(4096);
                }
                if let Ok(resp) = http::once(&sock, &req, Duration::from_secs(30)) {
                    if let Ok(f) = serde_json::from_slice::<Frame>(&resp.body) {
                        acks.lock().unwrap().push((f.id.to_string(), sha256_integrity(&body)));
                    }
                }
            }
        }));
    }
    for h in hs {
        let _ = h.join();
    }
    let acks = acks.lock().unwrap().clone();
    let want = acks.len();
    srv.wait(Duration::from_secs(40), |log| log.iter().filter(|f| f.topic == "rd.out").count() >= want || log.iter().any(|f| f.topic == "rd.unregistered"))?;
    srv.settle(Duration::from_millis(150), Duration::from_secs(5))?;
    srv.call(json!({"op": "hook", "jitter": null}))?;
    let mut reads = 0u64;
    for i in 0..3 {
        let v = srv.call(json!({"op": "follow_poll", "fid": format!("fc{}", i), "min": 0, "wait_ms": 0}))?;
        let items: Vec<Frame> = serde_json::from_value(v["items"].clone()).unwrap_or_default();
        for f in items.iter().filter(|f| f.topic == "race") {
            reads += 1;
            let verdict = f.meta.as_ref().and_then(|m| m.get("__cas")).and_then(|v| v.as_str()).unwrap_or("no-hash");
            if verdict != "ok" {
                res.find(&["C10"], "frame-observable-before-its-content", json!({"follower": i, "frame_id": f.id.to_string(), "verdict": verdict}));
            }
            if let Some((_, want)) = acks.iter().find(|a| a.0 == f.id.to_string()) {
                if f.hash.as_ref().map(|h| h.to_string()).as_deref() != Some(want.as_str()) {
                    res.find(&["C10", "C13"], "hash-is-not-sha256-of-the-bytes/POST_topic_concurrent", json!({"frame_id": f.id.to_string()}));
                }
            }
        }
        if items.iter().filter(|f| f.topic == "race").count() < want {
            res.find(&["C10", "C03"], "race/follower-missed-frames", json!({"follower": i, "got": items.len(), "want": want}));
        }
    }
    let log: Vec<Frame> = srv.era_log().to_vec();
    if let Some(u) = log.iter().find(|f| f.topic == "rd.unregistered") {
        res.find(&["C10"], "handler-invoked-before-content-was-readable", json!({"unregistered": u}));
    }
    let outs = log.iter().filter(|f| f.topic == "rd.out").count();
    res.count("immediate_content_reads", reads + outs as u64);
    res.count("concurrent_http_writes", want as u64);
    res.nontrivial = reads > 20;
    if res.sample.is_none() {
        res.sample = Some(json!({"mode": "race", "writers": writers, "per_writer": per, "immediate_reads": reads, "handler_reads": outs}));
    }
    Ok(())
}

/// SIGKILL a server that is taking POST bodies; every visible frame with a hash has its content
fn kill(srv: &mut Srv, seed: u64, res: &mut CaseResult) -> R<()> {
    let mut rng = Rng::new(seed);
    let sock = srv.dir.join("sock");
    let stop = Arc::new(AtomicBool::new(false));
    let mut hs = vec![];
    for w in 0..4 {
        let sock = sock.clone();
        let stop = stop.clone();
        let mut r = Rng::new(seed ^ (w + 11) * 104729);
        hs.push(std::thread::spawn(move || {
            let mut n = 0;
            while !stop.load(Ordering::SeqCst) && n < 400 {
                let size = *r.pick(&[50usize, 3000, 20_000, 200_000]);
                let mut body = format!("kill-{}-{}-", w, n).into_bytes();
                body.extend(r.bytes(size));
                let _ = http::once(&sock, &Req::new("POST", "/k").body(&body).chunked(8192), Duration::from_secs(5));
                n += 1;
            }
        }));
    }
    std::thread::sleep(Duration::from_millis(20 + rng.below(400) as u64));
    let dir = srv.dir.clone();
    if let Some(s) = srv.sess.take() {
        s.kill();
    }
    stop.store(true, Ordering::SeqCst);
    for h in hs {
        let _ = h.join();
    }
    // reopen with a plain store session and look
    let mut s = Session::spawn(&dir, false)?;
    let v = s.call(json!({"op": "read_sync"}))?;
    let frames: Vec<Frame> = serde_json::from_value(v["frames"].clone()).unwrap_or_default();
    let mut checked = 0u64;
    for f in frames.iter().filter(|f| f.hash.is_some()) {
        let h = f.hash.as_ref().unwrap().to_string();
        let v = s.call(json!({"op": "cas_read", "hash": h}))?;
        checked += 1;
        match v["b64"].as_str() {
            Some(b) => {
                if sha256_integrity(&crate::session::unb64(b)) != h {
                    res.find(&["C10", "C04"], "after-kill/content-does-not-match-hash", json!({"frame": f}));
                }
            }
            None => res.find(&["C10", "C04"], "after-kill/visible-frame-without-content", json!({"frame": f, "error": v["err"]})),
        }
    }
    s.close();
    res.count("frames_checked_after_kill", checked);
    res.count("kills", 1);
    res.nontrivial = checked > 0;
    if res.sample.is_none() {
        res.sample = Some(json!({"mode": "kill", "frames_with_hash_visible_after_kill": checked}));
    }
    Ok(())
}

#[allow(dead_code)]
fn unused(_: Value) {}
