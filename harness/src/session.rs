//! Child-process sessions. The child opens the real `Store` (and optionally the real
//! serve loops + HTTP API) and executes JSON-line operations from stdin; the parent owns
//! generator, model and oracle. "Reopen"/"restart" = a new process, as for users.

use std::collections::HashMap;
use std::io::{BufRead, BufReader, Write};
use std::path::{Path, PathBuf};
use std::process::{Child, ChildStdin, Command, Stdio};
use std::sync::mpsc::{channel, Receiver, RecvTimeoutError};
use std::sync::{Arc, Mutex};
use std::time::Duration;

use base64::Engine as _;
use scru128::Scru128Id;
use serde_json::{json, Value};

use xs::store::{Frame, ReadOptions, Store};

pub fn b64(bytes: &[u8]) -> String {
    base64::engine::general_purpose::STANDARD.encode(bytes)
}
pub fn unb64(s: &str) -> Vec<u8> {
    base64::engine::general_purpose::STANDARD.decode(s).unwrap_or_default()
}
pub fn hex(bytes: &[u8]) -> String {
    bytes.iter().map(|b| format!("{:02x}", b)).collect()
}
pub fn unhex(s: &str) -> Vec<u8> {
    (0..s.len() / 2)
        .map(|i| u8::from_str_radix(&s[2 * i..2 * i + 2], 16).unwrap_or(0))
        .collect()
}

pub fn frame_digest(f: &Frame) -> u64 {
    crate::report::fnv(&serde_json::to_string(f).unwrap_or_default())
}

// ---------------------------------------------------------------------------
// child side
// ---------------------------------------------------------------------------

static PANICS: Mutex<Vec<String>> = Mutex::new(Vec::new());

struct Follower {
    items: Arc<Mutex<(Vec<Frame>, bool)>>,
    handle: tokio::task::JoinHandle<()>,
}

struct TraceState {
    on: bool,
    events: Vec<(String, Option<String>, u128)>,
    delays: Vec<(String, u64)>, // prefix, fixed delay ms
    jitter: Option<(u64, u64, Vec<String>)>, // permille, max_us, prefixes
    rng: crate::rng::Rng,
}

pub fn child_main(dir: PathBuf, serve: bool) -> ! {
    std::panic::set_hook(Box::new(|info| {
        let msg = format!("{}", info);
        eprintln!("[child panic] {}", msg);
        PANICS.lock().unwrap().push(msg);
    }));
    let rt = tokio::runtime::Builder::new_multi_thread()
        .worker_threads(4)
        .enable_all()
        .build()
        .unwrap();

    let trace = Arc::new(Mutex::new(TraceState {
        on: false,
        events: vec![],
        delays: vec![],
        jitter: None,
        rng: crate::rng::Rng::new(1),
    }));
    {
        let trace = trace.clone();
        let t0 = std::time::Instant::now();
        xs::verif::set_hook(Some(Arc::new(move |name, id| {
            let mut sleep_us = 0u64;
            {
                let mut t = trace.lock().unwrap();
                if t.on {
                    t.events.push((name.to_string(), id.map(|i| i.to_string()), t0.elapsed().as_micros()));
                }
                for (p, ms) in &t.delays {
                    if name.starts_with(p.as_str()) {
                        sleep_us = sleep_us.max(ms * 1000);
                    }
                }
                if let Some((permille, max_us, prefixes)) = t.jitter.clone() {
                    if prefixes.is_empty() || prefixes.iter().any(|p| name.starts_with(p.as_str())) {
                        if t.rng.chance(permille) && max_us > 0 {
                            sleep_us = sleep_us.max(t.rng.range(1, max_us));
                        }
                    }
                }
            }
            if sleep_us > 0 {
                std::thread::sleep(Duration::from_micros(sleep_us));
            }
        })));
    }

    // the virtual clock must be in place before Store::new (its registry reload is a read)
    if let Some(ms) = std::env::var("XSMON_CLOCK").ok().and_then(|s| s.parse::<u64>().ok()) {
        xs::verif::set_now(Some(ms));
    }
    let store = {
        let dir = dir.clone();
        match std::panic::catch_unwind(move || Store::new(dir)) {
            Ok(s) => s,
            Err(_) => {
                let p = PANICS.lock().unwrap().clone();
                println!("{}", json!({"ready": false, "panics": p}));
                std::process::exit(3);
            }
        }
    };

    if serve {
        let _g = rt.enter();
        let engine = xs::nu::Engine::new().unwrap();
        {
            let store = store.clone();
            let engine = engine.clone();
            rt.spawn(async move {
                let _ = xs::generators::serve(store, engine).await;
            });
        }
        {
            let store = store.clone();
            let engine = engine.clone();
            rt.spawn(async move {
                let _ = xs::handlers::serve(store, engine).await;
            });
        }
        {
            let store = store.clone();
            let engine = engine.clone();
            rt.spawn(async move {
                let _ = xs::commands::serve(store, engine).await;
            });
        }
        {
            let store = store.clone();
            let engine = engine.clone();
            rt.spawn(async move {
                // XSMON_EXPOSE=<host:port>: also listen on TCP (the client library's other transport)
                if let Err(e) = xs::api::serve(store, engine, std::env::var("XSMON_EXPOSE").ok()).await {
                    eprintln!("[child] api::serve ended: {}", e);
                }
            });
        }
        // wait until the socket accepts connections (the file appears at bind(), before listen())
        for _ in 0..1000 {
            if std::os::unix::net::UnixStream::connect(dir.join("sock")).is_ok() {
                break;
            }
            std::thread::sleep(Duration::from_millis(5));
        }
    }

    let out = std::io::stdout();
    {
        let mut o = out.lock();
        let _ = writeln!(o, "{}", json!({"ready": true, "pid": std::process::id()}));
        let _ = o.flush();
    }

    let mut followers: HashMap<String, Follower> = HashMap::new();
    let mut reported = 0usize;
    let stdin = std::io::stdin();
    let mut line = String::new();
    let mut reader = stdin.lock();
    loop {
        line.clear();
        match reader.read_line(&mut line) {
            Ok(0) | Err(_) => std::process::exit(0),
            Ok(_) => {}
        }
        let req: Value = match serde_json::from_str(line.trim_end()) {
            Ok(v) => v,
            Err(e) => {
                let mut o = out.lock();
                let _ = writeln!(o, "{}", json!({"harness_error": format!("bad request: {}", e)}));
                let _ = o.flush();
                continue;
            }
        };
        let mark = std::env::var("XSMON_MARK").is_ok();
        if mark {
            if let Some(k) = req.get("k").and_then(|k| k.as_u64()) {
                // one write(1) syscall before the operation starts: visible in an strace log
                let mut o = out.lock();
                let _ = writeln!(o, "#B {}", k);
                let _ = o.flush();
            }
        }
        if req["op"] == "exit" {
            let mut o = out.lock();
            let _ = writeln!(o, "{}", json!({"bye": true}));
            let _ = o.flush();
            std::process::exit(0);
        }
        let store2 = store.clone();
        let req2 = req.clone();
        let res = std::panic::catch_unwind(std::panic::AssertUnwindSafe(|| {
            exec_op(&rt, &store2, &req2, &mut followers, &trace)
        }));
        let mut resp = match res {
            Ok(v) => v,
            Err(_) => json!({"panic": true}),
        };
        if let Some(k) = req.get("k") {
            resp["k"] = k.clone();
        }
        // every panic since the last reply (also those of background threads while idle)
        let p = PANICS.lock().unwrap();
        if p.len() > reported {
            resp["panics"] = json!(p[reported..].to_vec());
            reported = p.len();
        }
        drop(p);
        let mut o = out.lock();
        let _ = writeln!(o, "{}", resp);
        let _ = o.flush();
    }
}

fn parse_id(v: &Value) -> Option<Scru128Id> {
    v.as_str().and_then(|s| s.parse().ok())
}

fn frames_json(frames: &[Frame], digest: bool) -> Value {
    if digest {
        Value::Array(
            frames
                .iter()
                .map(|f| json!([f.id.to_string(), frame_digest(f).to_string()]))
                .collect(),
        )
    } else {
        serde_json::to_value(frames).unwrap()
    }
}

fn collect_read(rt: &tokio::runtime::Runtime, store: &Store, opts: ReadOptions, max_wait: Duration) -> (Vec<Frame>, bool) {
    rt.block_on(async {
        let mut rx = store.read(opts).await;
        let mut out = vec![];
        let deadline = tokio::time::Instant::now() + max_wait;
        loop {
            match tokio::time::timeout_at(deadline, rx.recv()).await {
                Ok(Some(f)) => out.push(f),
                Ok(None) => return (out, true),
                Err(_) => return (out, false),
            }
        }
    })
}

fn raw_json(store: &Store) -> Value {
    let raw = store.verif_raw_keys();
    json!({
        "stream": raw.stream.iter().map(|(k, v)| json!([hex(k), String::from_utf8_lossy(v)])).collect::<Vec<_>>(),
        "idx_topic": raw.idx_topic.iter().map(|k| hex(k)).collect::<Vec<_>>(),
        "idx_context": raw.idx_context.iter().map(|k| hex(k)).collect::<Vec<_>>(),
    })
}

fn list_layout(dir: &Path) -> Vec<String> {
    fn walk(base: &Path, p: &Path, out: &mut Vec<String>) {
        if let Ok(rd) = std::fs::read_dir(p) {
            for e in rd.flatten() {
                let path = e.path();
                if path.is_dir() {
                    walk(base, &path, out);
                } else if let Ok(md) = e.metadata() {
                    out.push(format!(
                        "{}:{}",
                        path.strip_prefix(base).unwrap_or(&path).display(),
                        md.len()
                    ));
                }
            }
        }
    }
    let mut out = vec![];
    walk(dir, dir, &mut out);
    out.sort();
    out
}

fn exec_op(
    rt: &tokio::runtime::Runtime,
    store: &Store,
    req: &Value,
    followers: &mut HashMap<String, Follower>,
    trace: &Arc<Mutex<TraceState>>,
) -> Value {
    let op = req["op"].as_str().unwrap_or("");
    match op {
        "append" => {
            let mut frame: Frame = match serde_json::from_value(req["frame"].clone()) {
                Ok(f) => f,
                Err(e) => return json!({"harness_error": format!("append frame: {}", e)}),
            };
            if let Some(c) = req.get("content_b64").and_then(|c| c.as_str()) {
                match store.cas_insert_sync(unb64(c)) {
                    Ok(h) => frame.hash = Some(h),
                    Err(e) => return json!({"err": format!("cas: {}", e)}),
                }
            }
            match store.append(frame) {
                Ok(f) => json!({"ok": f}),
                Err(e) => json!({"err": e.to_string()}),
            }
        }
        "burst" => {
            // `writers` threads append `n` frames each, concurrently (unique (w, s) metas)
            let n = req["n"].as_u64().unwrap_or(1);
            let writers = req["writers"].as_u64().unwrap_or(1);
            let ctx = parse_id(&req["ctx"]).unwrap_or(xs::store::ZERO_CONTEXT);
            let topic = req["topic"].as_str().unwrap_or("burst").to_string();
            let tag = req["tag"].as_u64().unwrap_or(0);
            let mut hs = vec![];
            for w in 0..writers {
                let store = store.clone();
                let topic = topic.clone();
                hs.push(std::thread::spawn(move || {
                    let mut ids = vec![];
                    for s in 0..n {
                        if let Ok(f) = store.append(Frame::builder(topic.clone(), ctx).meta(json!({"w": w, "s": s, "tag": tag})).build()) {
                            ids.push(f.id.to_string());
                        }
                    }
                    ids
                }));
            }
            let mut all = vec![];
            for h in hs {
                all.extend(h.join().unwrap_or_default());
            }
            all.sort();
            json!({"ok": all})
        }
        "nu_eval" => {
            // the nushell access path: the store commands (.cat .head .get .cas .remove .append) bound to one context,
            // as handlers and commands see them
            use xs::nu::commands::*;
            let ctx = parse_id(&req["ctx"]).unwrap_or(xs::store::ZERO_CONTEXT);
            let expr = req["expr"].as_str().unwrap_or("").to_string();
            static ENGINE: std::sync::OnceLock<Result<xs::nu::Engine, String>> = std::sync::OnceLock::new();
            let base = match ENGINE.get_or_init(|| xs::nu::Engine::new().map_err(|e| e.to_string())) {
                Ok(e) => e.clone(),
                Err(e) => return json!({"harness_error": format!("nu engine: {}", e)}),
            };
            let mut engine = base;
            if let Err(e) = engine.add_commands(vec![
                Box::new(cat_command::CatCommand::new(store.clone(), ctx)),
                Box::new(head_command::HeadCommand::new(store.clone(), ctx)),
                Box::new(get_command::GetCommand::new(store.clone())),
                Box::new(cas_command::CasCommand::new(store.clone())),
                Box::new(remove_command::RemoveCommand::new(store.clone())),
                Box::new(append_command::AppendCommand::new(store.clone(), ctx, json!({}))),
            ]) {
                return json!({"harness_error": format!("nu commands: {}", e)});
            }
            match engine.eval(nu_protocol::PipelineData::empty(), expr) {
                Ok(pd) => match pd.into_value(nu_protocol::Span::unknown()) {
                    Ok(v) => match v {
                        nu_protocol::Value::Error { error, .. } => json!({"err": error.to_string()}),
                        v => json!({"value": xs::nu::value_to_json(&v)}),
                    },
                    Err(e) => json!({"err": e.to_string()}),
                },
                Err(e) => json!({"err": e.to_string()}),
            }
        }
        "append_pair" => {
            // two frames of one topic back to back (the first without content, the second with): nothing else can be
            // appended in between by this process's own components unless they are faster than two calls
            let ctx = parse_id(&req["ctx"]).unwrap_or(xs::store::ZERO_CONTEXT);
            let topic = req["topic"].as_str().unwrap_or("pair");
            let hash = match store.cas_insert_sync(unb64(req["second_content_b64"].as_str().unwrap_or(""))) {
                Ok(h) => h,
                Err(e) => return json!({"err": e.to_string()}),
            };
            let first = store.append(Frame::builder(topic, ctx).build());
            let second = store.append(Frame::builder(topic, ctx).hash(hash).build());
            match (first, second) {
                (Ok(a), Ok(b)) => json!({"ok": [a, b]}),
                (a, b) => json!({"err": format!("{:?} / {:?}", a.err().map(|e| e.to_string()), b.err().map(|e| e.to_string()))}),
            }
        }
        "append_nested" => {
            // meta nested `depth` levels, built here because the transport itself is JSON
            let depth = req["depth"].as_u64().unwrap_or(0) as usize;
            let meta = crate::gen::nested(depth, req["array"].as_bool().unwrap_or(false));
            let topic = req["topic"].as_str().unwrap_or("deep");
            if let Some(id) = parse_id(&req["import_id"]) {
                let f = Frame::builder(topic, xs::store::ZERO_CONTEXT).id(id).meta(meta).build();
                match store.insert_frame(&f) {
                    Ok(()) => json!({"ok": true}),
                    Err(e) => json!({"err": e.to_string()}),
                }
            } else {
                let f = Frame::builder(topic, xs::store::ZERO_CONTEXT).meta(meta).build();
                match store.append(f) {
                    Ok(f) => json!({"ok": f.id.to_string()}),
                    Err(e) => json!({"err": e.to_string()}),
                }
            }
        }
        "import" => {
            let frame: Frame = match serde_json::from_value(req["frame"].clone()) {
                Ok(f) => f,
                Err(e) => return json!({"harness_error": format!("import frame: {}", e)}),
            };
            match store.insert_frame(&frame) {
                Ok(()) => json!({"ok": true}),
                Err(e) => json!({"err": e.to_string()}),
            }
        }
        "remove" => match parse_id(&req["id"]) {
            Some(id) => match store.remove(&id) {
                Ok(()) => json!({"ok": true}),
                Err(e) => json!({"err": e.to_string()}),
            },
            None => json!({"harness_error": "bad id"}),
        },
        "get" => match parse_id(&req["id"]) {
            Some(id) => json!({"frame": store.get(&id)}),
            None => json!({"harness_error": "bad id"}),
        },
        "head" => {
            let ctx = parse_id(&req["ctx"]).unwrap_or(xs::store::ZERO_CONTEXT);
            json!({"frame": store.head(req["topic"].as_str().unwrap_or(""), ctx)})
        }
        "read_sync" => {
            let last = parse_id(&req["last_id"]);
            let limit = req["limit"].as_u64().map(|l| l as usize);
            let ctx = parse_id(&req["ctx"]);
            let frames: Vec<Frame> = store.read_sync(last.as_ref(), limit, ctx).collect();
            json!({"frames": frames_json(&frames, req["digest"].as_bool().unwrap_or(false))})
        }
        "read" => {
            let opts = if let Some(q) = req["query"].as_str() {
                match ReadOptions::from_query(if q.is_empty() { None } else { Some(q) }) {
                    Ok(o) => o,
                    Err(e) => return json!({"err": format!("options: {}", e)}),
                }
            } else {
                ReadOptions::builder()
                    .maybe_last_id(parse_id(&req["last_id"]))
                    .maybe_limit(req["limit"].as_u64().map(|l| l as usize))
                    .maybe_context_id(parse_id(&req["ctx"]))
                    .build()
            };
            let wait = Duration::from_millis(req["wait_ms"].as_u64().unwrap_or(30_000));
            let (frames, closed) = collect_read(rt, store, opts, wait);
            json!({"frames": frames_json(&frames, req["digest"].as_bool().unwrap_or(false)), "closed": closed})
        }
        "clock" => {
            xs::verif::set_now(req["ms"].as_u64());
            json!({"ok": true})
        }
        "gc_drain" => {
            rt.block_on(store.wait_for_gc());
            json!({"ok": true})
        }
        "raw" => json!({"raw": raw_json(store)}),
        "layout" => json!({"files": list_layout(&store.path.join("fjall"))}),
        "cas_insert" if req["async"].as_bool().unwrap_or(false) => match rt.block_on(store.cas_insert(unb64(req["b64"].as_str().unwrap_or("")))) {
            Ok(h) => json!({"hash": h.to_string()}),
            Err(e) => json!({"err": e.to_string()}),
        },
        "cas_insert" => match store.cas_insert_sync(unb64(req["b64"].as_str().unwrap_or(""))) {
            Ok(h) => json!({"hash": h.to_string()}),
            Err(e) => json!({"err": e.to_string()}),
        },
        "cas_stream_insert" => {
            // the streaming writer (size unknown up front), in chunks
            use std::io::Write as _;
            let bytes = unb64(req["b64"].as_str().unwrap_or(""));
            let chunk = req["chunk"].as_u64().unwrap_or(8192).max(1) as usize;
            if req["async"].as_bool().unwrap_or(false) {
                use tokio::io::AsyncWriteExt;
                let r: Result<ssri::Integrity, String> = rt.block_on(async {
                    let mut w = store.cas_writer().await.map_err(|e| e.to_string())?;
                    for c in bytes.chunks(chunk) {
                        w.write_all(c).await.map_err(|e| e.to_string())?;
                    }
                    w.commit().await.map_err(|e| e.to_string())
                });
                match r {
                    Ok(h) => json!({"hash": h.to_string()}),
                    Err(e) => json!({"err": e}),
                }
            } else {
                let r: Result<ssri::Integrity, String> = (|| {
                    let mut w = store.cas_writer_sync().map_err(|e| e.to_string())?;
                    for c in bytes.chunks(chunk) {
                        w.write_all(c).map_err(|e| e.to_string())?;
                    }
                    w.commit().map_err(|e| e.to_string())
                })();
                match r {
                    Ok(h) => json!({"hash": h.to_string()}),
                    Err(e) => json!({"err": e}),
                }
            }
        }
        "cas_read" => {
            let h: Result<ssri::Integrity, _> = req["hash"].as_str().unwrap_or("").parse();
            match h {
                Ok(h) => match store.cas_read_sync(&h) {
                    Ok(bytes) => json!({"b64": b64(&bytes)}),
                    Err(e) => json!({"err": e.to_string()}),
                },
                Err(e) => json!({"err": format!("hash parse: {}", e)}),
            }
        }
        "bulk" => {
            // n frames with `size`-byte padded meta, to force memtable flush / journal rotation
            let n = req["n"].as_u64().unwrap_or(0);
            let size = req["size"].as_u64().unwrap_or(0) as usize;
            let ctx = parse_id(&req["ctx"]).unwrap_or(xs::store::ZERO_CONTEXT);
            let topic = req["topic"].as_str().unwrap_or("bulk");
            let tag = req["tag"].as_u64().unwrap_or(0);
            let mut out = vec![];
            for i in 0..n {
                let pad: String = std::iter::repeat((b'a' + ((i + tag) % 26) as u8) as char).take(size).collect();
                let ttl: Option<xs::store::TTL> = req.get("ttl").and_then(|t| serde_json::from_value(t.clone()).ok());
                let f = Frame::builder(topic, ctx).meta(json!({"bulk": i, "tag": tag, "pad": pad})).maybe_ttl(ttl).build();
                match store.append(f) {
                    Ok(f) => out.push(json!([f.id.to_string(), frame_digest(&f).to_string()])),
                    Err(e) => return json!({"err": e.to_string(), "done": out}),
                }
            }
            json!({"ok": out})
        }
        "sweep" => {
            let digest = true;
            let mut res = serde_json::Map::new();
            let all: Vec<Frame> = store.read_sync(None, None, None).collect();
            res.insert("all".into(), frames_json(&all, digest));
            let (all_async, closed) = collect_read(rt, store, ReadOptions::default(), Duration::from_secs(60));
            res.insert("all_async".into(), frames_json(&all_async, digest));
            res.insert("all_async_closed".into(), json!(closed));
            let mut ctx_map = serde_json::Map::new();
            let mut ctx_async = serde_json::Map::new();
            for c in req["ctxs"].as_array().cloned().unwrap_or_default() {
                if let Some(id) = parse_id(&c) {
                    let fs: Vec<Frame> = store.read_sync(None, None, Some(id)).collect();
                    ctx_map.insert(id.to_string(), frames_json(&fs, digest));
                    let (fa, _) = collect_read(
                        rt,
                        store,
                        ReadOptions::builder().context_id(id).build(),
                        Duration::from_secs(60),
                    );
                    ctx_async.insert(id.to_string(), frames_json(&fa, digest));
                }
            }
            res.insert("ctx".into(), Value::Object(ctx_map));
            res.insert("ctx_async".into(), Value::Object(ctx_async));
            let mut gets = serde_json::Map::new();
            for i in req["ids"].as_array().cloned().unwrap_or_default() {
                if let Some(id) = parse_id(&i) {
                    let g = store.get(&id);
                    gets.insert(
                        id.to_string(),
                        match g {
                            Some(f) => json!(frame_digest(&f).to_string()),
                            None => Value::Null,
                        },
                    );
                }
            }
            res.insert("get".into(), Value::Object(gets));
            let mut heads = vec![];
            for h in req["heads"].as_array().cloned().unwrap_or_default() {
                let topic = h[0].as_str().unwrap_or("");
                let ctx = parse_id(&h[1]).unwrap_or(xs::store::ZERO_CONTEXT);
                heads.push(match store.head(topic, ctx) {
                    Some(f) => json!({"id": f.id.to_string(), "topic": f.topic, "ctx": f.context_id.to_string()}),
                    None => Value::Null,
                });
            }
            res.insert("heads".into(), Value::Array(heads));
            if req["raw"].as_bool().unwrap_or(true) {
                let raw = store.verif_raw_keys();
                // stream: key + (topic, ctx) decoded leniently so that a decode failure is reported, not a panic
                let stream: Vec<Value> = raw
                    .stream
                    .iter()
                    .map(|(k, v)| match serde_json::from_slice::<Frame>(v) {
                        Ok(f) => json!([hex(k), f.id.to_string(), f.context_id.to_string(), f.topic]),
                        Err(e) => json!([hex(k), Value::Null, format!("undecodable: {}", e)]),
                    })
                    .collect();
                res.insert(
                    "raw".into(),
                    json!({
                        "stream": stream,
                        "idx_topic": raw.idx_topic.iter().map(|k| hex(k)).collect::<Vec<_>>(),
                        "idx_context": raw.idx_context.iter().map(|k| hex(k)).collect::<Vec<_>>(),
                    }),
                );
            }
            Value::Object(res)
        }
        "follow_start" => {
            let fid = req["fid"].as_str().unwrap_or("f").to_string();
            let q = req["query"].as_str().unwrap_or("follow=true");
            let opts = match ReadOptions::from_query(Some(q)) {
                Ok(o) => o,
                Err(e) => return json!({"err": format!("options: {}", e)}),
            };
            let items = Arc::new(Mutex::new((Vec::new(), false)));
            let items2 = items.clone();
            let store = store.clone();
            // subscribe synchronously so that the caller knows the read has begun
            let rx = rt.block_on(store.read(opts));
            let handle = rt.spawn(async move {
                let mut rx = rx;
                while let Some(f) = rx.recv().await {
                    items2.lock().unwrap().0.push(f);
                }
                items2.lock().unwrap().1 = true;
            });
            followers.insert(fid, Follower { items, handle });
            json!({"ok": true})
        }
        "follow_cas_start" => {
            // a follower that reads the content of every delivered frame at once (C10: present before observable)
            let fid = req["fid"].as_str().unwrap_or("fc").to_string();
            let opts = match ReadOptions::from_query(Some(req["query"].as_str().unwrap_or("follow=true&tail=true"))) {
                Ok(o) => o,
                Err(e) => return json!({"err": format!("options: {}", e)}),
            };
            let items = Arc::new(Mutex::new((Vec::new(), false)));
            let items2 = items.clone();
            let store2 = store.clone();
            let rx = rt.block_on(store.read(opts));
            let handle = rt.spawn(async move {
                let mut rx = rx;
                while let Some(mut f) = rx.recv().await {
                    if let Some(h) = f.hash.clone() {
                        let verdict = match store2.cas_read(&h).await {
                            Ok(bytes) => {
                                if crate::cas::sha256_integrity(&bytes) == h.to_string() { "ok".to_string() } else { format!("content-does-not-match-hash len={}", bytes.len()) }
                            }
                            Err(e) => format!("unreadable: {}", e),
                        };
                        let mut m = f.meta.take().unwrap_or(json!({}));
                        if !m.is_object() {
                            m = json!({"orig": m});
                        }
                        m["__cas"] = json!(verdict);
                        f.meta = Some(m);
                    }
                    items2.lock().unwrap().0.push(f);
                }
                items2.lock().unwrap().1 = true;
            });
            followers.insert(fid, Follower { items, handle });
            json!({"ok": true})
        }
        "follow_poll" => {
            let fid = req["fid"].as_str().unwrap_or("f");
            let min = req["min"].as_u64().unwrap_or(0) as usize;
            let wait = Duration::from_millis(req["wait_ms"].as_u64().unwrap_or(0));
            let until_topic = req["until_topic"].as_str().map(|s| s.to_string());
            let Some(f) = followers.get(fid) else {
                return json!({"harness_error": "no such follower"});
            };
            let t0 = std::time::Instant::now();
            loop {
                {
                    let g = f.items.lock().unwrap();
                    let hit = match &until_topic {
                        Some(t) => g.0.iter().any(|x| &x.topic == t),
                        None => g.0.len() >= min,
                    };
                    if hit || g.1 || t0.elapsed() >= wait {
                        if let Some(from) = req["from"].as_u64() {
                            let from = (from as usize).min(g.0.len());
                            return json!({"items": g.0[from..].to_vec(), "total": g.0.len(), "closed": g.1, "satisfied": hit});
                        }
                        if req["digest"].as_bool().unwrap_or(false) {
                            let items: Vec<Value> = g.0.iter().map(|f| json!([f.id.to_string(), frame_digest(f).to_string(), f.topic])).collect();
                            return json!({"items": items, "closed": g.1, "satisfied": hit});
                        }
                        return json!({"items": g.0.clone(), "closed": g.1, "satisfied": hit});
                    }
                }
                std::thread::sleep(Duration::from_millis(2));
            }
        }
        "follow_drop" => {
            if let Some(f) = followers.remove(req["fid"].as_str().unwrap_or("f")) {
                f.handle.abort();
            }
            json!({"ok": true})
        }
        "hook" => {
            let mut t = trace.lock().unwrap();
            if let Some(on) = req["trace"].as_bool() {
                t.on = on;
            }
            if let Some(seed) = req["seed"].as_u64() {
                t.rng = crate::rng::Rng::new(seed);
            }
            if let Some(d) = req["delays"].as_array() {
                t.delays = d
                    .iter()
                    .map(|x| (x[0].as_str().unwrap_or("").to_string(), x[1].as_u64().unwrap_or(0)))
                    .collect();
            }
            if req.get("jitter").is_some() {
                t.jitter = if req["jitter"].is_null() {
                    None
                } else {
                    Some((
                        req["jitter"][0].as_u64().unwrap_or(0),
                        req["jitter"][1].as_u64().unwrap_or(0),
                        req["jitter"][2]
                            .as_array()
                            .map(|a| a.iter().filter_map(|s| s.as_str().map(|s| s.to_string())).collect())
                            .unwrap_or_default(),
                    ))
                };
            }
            let ev = if req["take"].as_bool().unwrap_or(false) {
                std::mem::take(&mut t.events)
            } else {
                vec![]
            };
            json!({"ok": true, "events": ev.iter().map(|(n, i, us)| json!([n, i, *us as u64])).collect::<Vec<_>>()})
        }
        "panics" => json!({"all": PANICS.lock().unwrap().clone()}),
        _ => json!({"harness_error": format!("unknown op {}", op)}),
    }
}

// ---------------------------------------------------------------------------
// parent side
// ---------------------------------------------------------------------------

#[derive(Debug)]
pub enum SessionError {
    /// the child did not answer in time (inconclusive, unless the oracle says otherwise)
    Timeout(String),
    /// the child died (observation: may be a panic/abort of the code under test)
    Died(String),
    Harness(String),
}

impl std::fmt::Display for SessionError {
    fn fmt(&self, f: &mut std::fmt::Formatter) -> std::fmt::Result {
        match self {
            SessionError::Timeout(s) => write!(f, "timeout: {}", s),
            SessionError::Died(s) => write!(f, "child died: {}", s),
            SessionError::Harness(s) => write!(f, "harness: {}", s),
        }
    }
}

pub struct Session {
    pub dir: PathBuf,
    child: Child,
    stdin: Option<ChildStdin>,
    rx: Receiver<String>,
    pub stderr_tail: Arc<Mutex<Vec<String>>>,
    pub ops: u64,
    pub pid: u32,
}

pub fn self_exe() -> PathBuf {
    std::env::current_exe().expect("current_exe")
}

impl Session {
    pub fn spawn(dir: &Path, serve: bool) -> Result<Session, SessionError> {
        Self::spawn_with(dir, serve, &[])
    }

    pub fn spawn_with(dir: &Path, serve: bool, env: &[(&str, &str)]) -> Result<Session, SessionError> {
        Self::spawn_traced(dir, serve, env, None)
    }

    /// `trace`: run the child under `strace -f -y -xx` writing the storage system calls to that file
    pub fn spawn_traced(dir: &Path, serve: bool, env: &[(&str, &str)], trace: Option<&Path>) -> Result<Session, SessionError> {
        std::fs::create_dir_all(dir).map_err(|e| SessionError::Harness(e.to_string()))?;
        let mut cmd = match trace {
            None => Command::new(self_exe()),
            Some(t) => {
                let mut c = Command::new("strace");
                c.arg("-f").arg("-y").arg("-xx").arg("-s").arg("4000000").arg("-o").arg(t).arg("-e").arg(
                    "trace=openat,open,creat,close,write,pwrite64,writev,pwritev,lseek,ftruncate,truncate,rename,renameat,renameat2,unlink,unlinkat,mkdir,mkdirat,rmdir,fsync,fdatasync,fallocate,dup,dup2,dup3",
                );
                c.arg(self_exe());
                c
            }
        };
        cmd.arg("session").arg(dir);
        if serve {
            cmd.arg("--serve");
        }
        for (k, v) in env {
            cmd.env(k, v);
        }
        cmd.env_remove("XS_VERIF_JITTER");
        cmd.current_dir(dir);
        cmd.stdin(Stdio::piped()).stdout(Stdio::piped()).stderr(Stdio::piped());
        let mut child = cmd.spawn().map_err(|e| SessionError::Harness(e.to_string()))?;
        let stdout = child.stdout.take().unwrap();
        let stderr = child.stderr.take().unwrap();
        let (tx, rx) = channel();
        std::thread::spawn(move || {
            let r = BufReader::new(stdout);
            for line in r.lines().map_while(Result::ok) {
                if tx.send(line).is_err() {
                    break;
                }
            }
        });
        let stderr_tail = Arc::new(Mutex::new(Vec::new()));
        {
            let tail = stderr_tail.clone();
            std::thread::spawn(move || {
                let r = BufReader::new(stderr);
                for line in r.lines().map_while(Result::ok) {
                    let mut t = tail.lock().unwrap();
                    t.push(line);
                    if t.len() > 60 {
                        t.remove(0);
                    }
                }
            });
        }
        let pid = child.id();
        let stdin = child.stdin.take();
        let mut s = Session { dir: dir.to_path_buf(), child, stdin, rx, stderr_tail, ops: 0, pid };
        match s.recv(Duration::from_secs(120)) {
            Ok(v) if v["ready"] == true => Ok(s),
            Ok(v) => Err(SessionError::Died(format!("store did not open: {}", v))),
            Err(e) => Err(e),
        }
    }

    fn recv(&mut self, timeout: Duration) -> Result<Value, SessionError> {
        let line = loop {
            match self.rx.recv_timeout(timeout) {
                Ok(l) if l.starts_with('#') => continue,
                other => break other,
            }
        };
        match line {
            Ok(line) => serde_json::from_str(&line).map_err(|e| SessionError::Harness(format!("bad reply {}: {}", e, line))),
            Err(RecvTimeoutError::Timeout) => Err(SessionError::Timeout(format!("no reply in {:?}", timeout))),
            Err(RecvTimeoutError::Disconnected) => {
                let status = self.child.wait().map(|s| s.to_string()).unwrap_or_default();
                let tail = self.stderr_tail.lock().unwrap().join("\n");
                Err(SessionError::Died(format!("{} stderr: {}", status, tail)))
            }
        }
    }

    pub fn send_only(&mut self, op: &Value) -> Result<(), SessionError> {
        let stdin = self.stdin.as_mut().ok_or_else(|| SessionError::Harness("stdin closed".into()))?;
        let mut line = serde_json::to_string(op).unwrap();
        line.push('\n');
        stdin
            .write_all(line.as_bytes())
            .and_then(|_| stdin.flush())
            .map_err(|e| SessionError::Died(format!("write to child: {}", e)))
    }

    pub fn call(&mut self, op: Value) -> Result<Value, SessionError> {
        self.call_t(op, Duration::from_secs(120))
    }

    pub fn call_t(&mut self, op: Value, timeout: Duration) -> Result<Value, SessionError> {
        self.send_only(&op)?;
        self.ops += 1;
        let v = self.recv(timeout)?;
        if let Some(e) = v.get("harness_error") {
            return Err(SessionError::Harness(format!("{} (op {})", e, op["op"])));
        }
        Ok(v)
    }

    /// clean exit (process ends, keyspace dropped by process exit as for a user stopping xs)
    pub fn close(mut self) {
        let _ = self.send_only(&json!({"op": "exit"}));
        let _ = self.recv(Duration::from_secs(20));
        let _ = self.child.wait();
    }

    /// SIGKILL
    pub fn kill(mut self) {
        let _ = self.child.kill();
        let _ = self.child.wait();
    }

    pub fn stderr(&self) -> String {
        self.stderr_tail.lock().unwrap().join("\n")
    }
}

impl Drop for Session {
    fn drop(&mut self) {
        let _ = self.child.kill();
        let _ = self.child.wait();
    }
}

/// fresh scratch directory under /verif/work
pub fn work_dir(tag: &str) -> PathBuf {
    use std::sync::atomic::{AtomicU64, Ordering};
    static N: AtomicU64 = AtomicU64::new(0);
    let base = std::env::var("XSMON_WORK").unwrap_or_else(|_| format!("{}/work", crate::report::VERIF_DIR));
    let p = PathBuf::from(base).join(format!(
        "{}-{}-{}",
        tag,
        std::process::id(),
        N.fetch_add(1, Ordering::SeqCst)
    ));
    let _ = std::fs::remove_dir_all(&p);
    std::fs::create_dir_all(&p).expect("create work dir");
    p
}

pub fn rm_dir(p: &Path) {
    let _ = std::fs::remove_dir_all(p);
}
