//! Run `n` independent cases on `workers` threads, collecting results in case order.
use std::sync::atomic::{AtomicUsize, Ordering};
use std::sync::{Arc, Mutex};

pub fn run_cases<T: Send + 'static>(n: usize, workers: usize, f: impl Fn(usize) -> T + Send + Sync + 'static) -> Vec<T> {
    let next = Arc::new(AtomicUsize::new(0));
    let out: Arc<Mutex<Vec<Option<T>>>> = Arc::new(Mutex::new((0..n).map(|_| None).collect()));
    let f = Arc::new(f);
    let mut hs = vec![];
    for _ in 0..workers.max(1).min(n.max(1)) {
        let next = next.clone();
        let out = out.clone();
        let f = f.clone();
        hs.push(std::thread::spawn(move || loop {
            let i = next.fetch_add(1, Ordering::SeqCst);
            if i >= n {
                break;
            }
            let r = f(i);
            out.lock().unwrap()[i] = Some(r);
        }));
    }
    for h in hs {
        let _ = h.join();
    }
    let mut g = out.lock().unwrap();
    g.drain(..).flatten().collect()
}

pub fn workers() -> usize {
    std::env::var("XSMON_WORKERS").ok().and_then(|s| s.parse().ok()).unwrap_or(16)
}
