//! Run `n` independent cases on `workers` threads, collecting results in case order.
use std::sync::atomic::{AtomicUsize, Ordering};
use std::sync::{Arc, Mutex};

/// Panics caught in case closures (a harness defect, never a verdict): `Report::finish` turns a non-empty list
/// into exit 2, so that a case can never vanish silently.
pub static PANICS: Mutex<Vec<String>> = Mutex::new(Vec::new());

pub fn run_cases<T: Send + 'static>(n: usize, workers: usize, f: impl Fn(usize) -> T + Send + Sync + 'static) -> Vec<T> {
    let next = Arc::new(AtomicUsize::new(0));
    let out: Arc<Mutex<Vec<Option<T>>>> = Arc::new(Mutex::new((0..n).map(|_| None).collect()));
    let f = Arc::new(f);
    let mut hs = vec![];
    for _ in 0..workers.max(1).min(n.max(1)) {
        let next = next.clone();
        let out = out.clone();
        let f = f.clone();
        hs.push(std::thread::spawn(move || loop {
            let i = next.fetch_add(1, Ordering::SeqCst);
            if i >= n {
                break;
            }
            match std::panic::catch_unwind(std::panic::AssertUnwindSafe(|| f(i))) {
                Ok(r) => out.lock().unwrap()[i] = Some(r),
                Err(e) => {
                    let msg = e.downcast_ref::<String>().cloned().or_else(|| e.downcast_ref::<&str>().map(|s| s.to_string())).unwrap_or_else(|| "panic".into());
                    PANICS.lock().unwrap().push(format!("case {}: {}", i, msg));
                }
            }
        }));
    }
    for h in hs {
        let _ = h.join();
    }
    let mut g = out.lock().unwrap();
    g.drain(..).flatten().collect()
}

pub fn workers() -> usize {
    std::env::var("XSMON_WORKERS").ok().and_then(|s| s.parse().ok()).unwrap_or(16)
}
