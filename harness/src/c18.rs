//! C18 — generator lifecycle: start, ordered output, stop, restart, duplex input.

use std::time::{Duration, Instant};

use scru128::Scru128Id;
use serde_json::json;

use xs::store::{Frame, ZERO_CONTEXT};

use crate::e5::*;
use crate::report::fnv;
use crate::rng::Rng;

#[derive(Clone, Debug)]
struct Gen {
    name: String,
    ctx: Scru128Id,
    expr: String,
    expect: Vec<String>,
    kind: &'static str,
    spawn: Option<Frame>,
}

fn gen_expr(rng: &mut Rng, tag: &str) -> (String, Vec<String>, &'static str) {
    match rng.below(5) {
        0 => (format!("\"one-{}\"", tag), vec![format!("one-{}", tag)], "single"),
        1 => {
            let k = 1 + rng.below(4);
            let items: Vec<String> = (0..k).map(|i| format!("\"s{}\"", i)).collect();
            (format!("[{}] | each {{|x| $\"($x)-{}\"}}", items.join(" "), tag), (0..k).map(|i| format!("s{}-{}", i, tag)).collect(), "list-stream")
        }
        2 => ("[] | each {|x| $x}".to_string(), vec![], "empty-stream"),
        3 => {
            let k = 2 + rng.below(3);
            (format!("1..{} | each {{|i| sleep 8ms; $\"n($i)-{}\"}}", k, tag), (1..=k).map(|i| format!("n{}-{}", i, tag)).collect(), "lazy-stream")
        }
        _ => (format!("[\"é{}\" \"日本\" \"\"] | each {{|x| $x}}", tag), vec![format!("é{}", tag), "日本".to_string(), "".to_string()], "unicode-and-empty-strings"),
    }
}

/// every eighth case: a store fault during a lifecycle (see `fault_case`)
pub fn run_case_idx(seed: u64, index: usize) -> CaseResult {
    if index % 8 != 7 {
        return run_case(seed);
    }
    let mut res = CaseResult::default();
    let mut srv = match Srv::start("c18f") {
        Ok(s) => s,
        Err(e) => {
            res.inconclusive = Some(format!("start: {}", e));
            return res;
        }
    };
    if let Err(e) = fault_case(&mut srv, seed, &mut res) {
        let stderr = srv.stderr();
        absorb(&mut res, &["C18"], e, stderr);
    }
    srv.finish();
    res
}

/// A generator is in the middle of a lifecycle when appends into its context start to fail (the context's
/// registration is removed) and later work again (the registration is imported back). Whatever the generator does
/// about the failure, the recv frames of a lifecycle are a *prefix* of what the pipeline produced, and a stop never
/// closes a lifecycle that has a gap. (On the unchanged tree the generator thread ends at the failed append.)
fn fault_case(srv: &mut Srv, seed: u64, res: &mut CaseResult) -> R<()> {
    let mut rng = Rng::new(seed);
    let ctx = srv.new_context()?;
    let reg = Frame::builder("xs.context", ZERO_CONTEXT).id(ctx).ttl(xs::store::TTL::Forever).build();
    let k = 6 + rng.below(4);
    let step_ms = 150u64;
    let expr = format!("1..{} | each {{|x| sleep {}ms; $\"v($x)\"}}", k, step_ms);
    let sp = srv.must_append("fg.spawn", ctx, Some(expr.as_bytes()), None, None)?;
    let sid = sp.id.to_string();
    // after two values: appends into the context fail for a while
    srv.wait(Duration::from_secs(20), |log| log.iter().filter(|f| f.topic == "fg.recv" && meta_str(f, "source_id") == Some(&sid)).count() >= 2)?;
    srv.call(json!({"op": "remove", "id": ctx.to_string()}))?;
    std::thread::sleep(Duration::from_millis(step_ms * 2 + rng.below(100) as u64));
    srv.call(json!({"op": "import", "frame": reg}))?;
    std::thread::sleep(Duration::from_millis(step_ms * (k as u64 + 2)));
    srv.settle(Duration::from_millis(300), Duration::from_secs(5))?;
    let log: Vec<Frame> = srv.era_log().iter().filter(|f| !is_synth(f)).cloned().collect();
    // first lifecycle only: frames up to the first stop (or the end)
    let mine: Vec<&Frame> = log.iter().filter(|f| meta_str(f, "source_id") == Some(&sid) && f.topic.starts_with("fg.")).collect();
    let first_stop = mine.iter().position(|f| f.topic == "fg.stop");
    let second_start = mine.iter().enumerate().filter(|(_, f)| f.topic == "fg.start").nth(1).map(|(i, _)| i);
    let end = first_stop.map(|i| i + 1).or(second_start).unwrap_or(mine.len());
    let mut got = vec![];
    for f in mine[..end].iter().filter(|f| f.topic == "fg.recv") {
        got.push(srv.content_str(f)?.unwrap_or_default());
    }
    let want: Vec<String> = (1..=k).map(|i| format!("v{}", i)).collect();
    res.count("fault_lifecycles_checked", 1);
    res.count("lifecycles_checked", 1);
    let d = json!({"expression": expr, "received": got, "stopped": first_stop.is_some()});
    let is_prefix = got.len() <= want.len() && got[..] == want[..got.len()];
    if !is_prefix {
        res.find(&["C18"], "fault/recv-frames-are-not-a-prefix-of-what-the-pipeline-produced", d.clone());
    } else if first_stop.is_some() && got.len() < want.len() {
        res.find(&["C18"], "fault/stop-closes-a-lifecycle-with-missing-recv-frames", d.clone());
    }
    res.seen("fault_outcomes", if first_stop.is_some() { "stopped" } else { "ended-without-stop" });
    res.nontrivial = got.len() >= 2;
    res.hash = fnv(&format!("fault{}", seed));
    Ok(())
}

pub fn run_case(seed: u64) -> CaseResult {
    let mut res = CaseResult::default();
    let mut srv = match Srv::start("c18") {
        Ok(s) => s,
        Err(e) => {
            res.inconclusive = Some(format!("start: {}", e));
            return res;
        }
    };
    let r = case(&mut srv, seed, &mut res);
    if let Err(e) = r {
        let stderr = srv.stderr();
        absorb(&mut res, &["C18"], e, stderr);
    }
    let _ = srv.call(json!({"op": "panics"}));
    if let Some(p) = srv.panics.iter().find(|p| p.contains("/repo/src/")) {
        // only string-producing expressions are generated: no generator thread may die
        let which = if p.contains("generators/serve.rs") { "generator-thread-panicked" } else { "panic-in-server" };
        res.find(&["C18"], which, json!({"panic": p}));
        res.inconclusive = None;
    }
    srv.finish();
    res
}

fn case(srv: &mut Srv, seed: u64, res: &mut CaseResult) -> R<()> {
    let mut rng = Rng::new(seed);
    let ctx_a = srv.new_context()?;
    let ctxs = [ZERO_CONTEXT, ctx_a];
    let t_begin = Instant::now();
    let n_gen = 4 + rng.below(4);
    let mut gens: Vec<Gen> = vec![];
    for i in 0..n_gen {
        let (expr, expect, kind) = gen_expr(&mut rng, &format!("g{}", i));
        res.seen("expression_kinds", kind);
        gens.push(Gen { name: format!("g{}", i), ctx: ctxs[rng.below(2)], expr, expect, kind, spawn: None });
    }
    for g in gens.iter_mut() {
        g.spawn = Some(srv.must_append(&format!("{}.spawn", g.name), g.ctx, Some(g.expr.as_bytes()), None, None)?);
    }
    // spawns that cannot be honoured
    let nocontent = srv.must_append("nocontent.spawn", ctx_a, None, None, None)?;
    let dup_of = gens[0].clone();
    let dup = srv.must_append(&format!("{}.spawn", dup_of.name), dup_of.ctx, Some(b"\"other\""), None, None)?;
    // duplex generators
    let n_tokens = 3 + rng.below(5);
    let n_dup = 1 + rng.below(2);
    let mut duplex: Vec<(String, Scru128Id, Frame, Vec<String>)> = vec![];
    for i in 0..n_dup {
        let name = format!("dx{}", i);
        let ctx = ctxs[rng.below(2)];
        // the first duplex generator ends after `n_tokens` lines, so it stops and is started again
        let expr = if i == 0 { format!("lines | first {} | each {{|x| $\"echo:($x)\"}}", n_tokens) } else { "lines | each {|x| $\"echo:($x)\"}".to_string() };
        let sp = srv.must_append(&format!("{}.spawn", name), ctx, Some(expr.as_bytes()), Some(json!({"duplex": true})), None)?;
        duplex.push((name, ctx, sp, vec![]));
    }
    // wait for the duplex instances to be running, then send tokens interleaved with other traffic
    let names: Vec<(String, String)> = duplex.iter().map(|d| (d.0.clone(), d.2.id.to_string())).collect();
    let started = srv.wait(Duration::from_secs(20), |log| names.iter().all(|(n, id)| log.iter().any(|f| f.topic == format!("{}.start", n) && meta_str(f, "source_id") == Some(id))))?;
    if !started {
        res.inconclusive = Some("duplex generators did not start within 20 s".into());
        return Ok(());
    }
    for t in 0..n_tokens {
        for d in duplex.iter_mut() {
            let tok = format!("{}-tok{}-{}", d.0, t, seed % 997);
            srv.must_append(&format!("{}.send", d.0), d.1, Some(format!("{}\n", tok).as_bytes()), None, None)?;
            d.3.push(tok);
            // unrelated traffic: another name's sends, ordinary frames, a send without content
            srv.must_append("unrelated.send", d.1, Some(b"noise\n"), None, None)?;
            // ... and sends for names that merely end with this generator's name
            srv.must_append(&format!("my.{}.send", d.0), d.1, Some(b"noise-for-a-longer-name\n"), None, None)?;
            srv.must_append(&format!("x{}.send", d.0), d.1, Some(b"noise-for-a-prefixed-name\n"), None, None)?;
            srv.must_append("chatter", d.1, None, None, None)?;
        }
        if t == 1 {
            for d in duplex.iter() {
                srv.must_append(&format!("{}.send", d.0), d.1, None, None, None)?;
            }
        }
        if rng.chance(500) {
            std::thread::sleep(Duration::from_millis(10));
        }
    }
    // a duplex generator fed arbitrary bytes: the content store holds any byte string, so a `.send` may carry
    // non-UTF-8 content; the pipeline reports type and length of what it is fed
    let dxb_ctx = ctxs[rng.below(2)];
    let dxb = srv.must_append("dxb.spawn", dxb_ctx, Some(br#"each {|x| $"got:($x | describe):($x | into binary | bytes length)"}"#), Some(json!({"duplex": true})), None)?;
    let dxb_id = dxb.id.to_string();
    let mut dxb_bytes_sent = 0usize;
    if srv.wait(Duration::from_secs(20), |log| log.iter().any(|f| f.topic == "dxb.start" && meta_str(f, "source_id") == Some(&dxb_id)))? {
        let blob = rng.bytes(40 + rng.clone().below(60));
        let sends: Vec<Vec<u8>> = vec![format!("text-before-{}\n", seed % 997).into_bytes(), vec![0xff, 0xfe, 0xfd, 0xfc, 0xfb, 0xfa, 0x80], format!("text-after-binary-{}\n", seed % 997).into_bytes(), blob, b"last-text-line\n".to_vec()];
        for s in &sends {
            srv.must_append("dxb.send", dxb_ctx, Some(s), None, None)?;
            dxb_bytes_sent += s.len();
            srv.must_append("chatter", dxb_ctx, None, None, None)?;
            std::thread::sleep(Duration::from_millis(15));
        }
        res.count("duplex_binary_sends", sends.len() as u64);
    } else {
        res.inconclusive = Some("byte-fed duplex generator did not start within 20 s".into());
        return Ok(());
    }
    // second lifecycle of the finite duplex generator: after its stop and restart, fresh tokens only
    {
        let (n0, id0) = (duplex[0].0.clone(), duplex[0].2.id.to_string());
        let restarted = srv.wait(Duration::from_secs(20), |log| log.iter().filter(|f| f.topic == format!("{}.start", n0) && meta_str(f, "source_id") == Some(&id0)).count() >= 2)?;
        if restarted {
            for t in 0..n_tokens {
                let tok = format!("{}-second{}-{}", duplex[0].0, t, seed % 997);
                let (name, ctx) = (duplex[0].0.clone(), duplex[0].1);
                srv.must_append(&format!("{}.send", name), ctx, Some(format!("{}\n", tok).as_bytes()), None, None)?;
                duplex[0].3.push(tok);
            }
            res.count("duplex_second_lifecycles", 1);
        } else {
            res.inconclusive = Some("finite duplex generator was not restarted within 20 s".into());
        }
    }
    // observe at least three lifecycles of the restarting generators (1 s between stop and restart)
    let lifecycles_wanted = 3;
    let wanted: Vec<(String, String)> = gens.iter().map(|g| (g.name.clone(), g.spawn.as_ref().unwrap().id.to_string())).collect();
    let ok = srv.wait(Duration::from_secs(15), |log| {
        wanted.iter().all(|(n, id)| log.iter().filter(|f| f.topic == format!("{}.stop", n) && meta_str(f, "source_id") == Some(id)).count() >= lifecycles_wanted)
    })?;
    // all duplex echoes
    let dwant: Vec<(String, String, usize)> = duplex.iter().map(|d| (d.0.clone(), d.2.id.to_string(), d.3.len())).collect();
    let dok = srv.wait(Duration::from_secs(15), |log| dwant.iter().all(|(n, id, k)| log.iter().filter(|f| f.topic == format!("{}.recv", n) && meta_str(f, "source_id") == Some(id)).count() >= *k))?;
    srv.settle(Duration::from_millis(150), Duration::from_secs(3))?;
    let observed_for = t_begin.elapsed();
    let log: Vec<Frame> = srv.era_log().iter().filter(|f| !is_synth(f)).cloned().collect();
    let t_end_id = log.last().map(|f| f.id);

    let mut lifecycles_checked = 0u64;
    for g in &gens {
        let sid = g.spawn.as_ref().unwrap().id.to_string();
        let d = json!({"generator": g.name, "context": g.ctx.to_string(), "expression": g.expr, "kind": g.kind, "spawn_id": sid});
        let mine: Vec<&Frame> = log.iter().filter(|f| meta_str(f, "source_id") == Some(&sid) && f.topic.starts_with(&format!("{}.", g.name))).collect();
        if let Some(f) = mine.iter().find(|f| f.context_id != g.ctx) {
            res.find(&["C18", "C06"], "generator-frame-outside-the-spawn-context", json!({"case": d, "frame": f}));
        }
        if mine.is_empty() {
            // safety witness: a later spawn was started while this one never was
            let later_started = log.iter().any(|f| f.topic.ends_with(".start") && f.id > g.spawn.as_ref().unwrap().id);
            if later_started {
                res.find(&["C18"], "accepted-spawn-never-started", json!({"case": d}));
            } else {
                res.inconclusive = Some("no generator started within the observation window".into());
            }
            continue;
        }
        // parse (start recv* stop)* (start recv*)?
        let mut i = 0;
        let mut complete = 0;
        let mut bad = false;
        while i < mine.len() {
            if !mine[i].topic.ends_with(".start") {
                let sig = if mine[i].topic.ends_with(".recv") { "output-outside-a-start-stop-bracket" } else { "lifecycle-frames-out-of-order" };
                res.find(&["C18"], sig, json!({"case": d, "at": i, "topics": mine.iter().map(|f| f.topic.clone()).take(12).collect::<Vec<_>>()}));
                bad = true;
                break;
            }
            let mut j = i + 1;
            let mut contents = vec![];
            while j < mine.len() && mine[j].topic.ends_with(".recv") {
                contents.push(srv.content_str(mine[j])?.unwrap_or_else(|| "<no content>".into()));
                j += 1;
            }
            if j < mine.len() {
                if !mine[j].topic.ends_with(".stop") {
                    res.find(&["C18"], "start-without-stop-before-the-next-start", json!({"case": d, "topics": mine.iter().map(|f| f.topic.clone()).take(12).collect::<Vec<_>>()}));
                    bad = true;
                    break;
                }
                // a complete lifecycle: contents must be exactly the produced strings, in order
                if contents != g.expect {
                    let sig = if contents.len() == g.expect.len() && { let mut a = contents.clone(); a.sort(); let mut b = g.expect.clone(); b.sort(); a == b } { "outputs-out-of-order" } else { "outputs-differ-from-what-the-pipeline-produces" };
                    res.find(&["C18", "C10"], sig, json!({"case": d, "got": contents, "expected": g.expect}));
                    bad = true;
                    break;
                }
                complete += 1;
                lifecycles_checked += 1;
                j += 1;
            } else {
                // still running at the end of the observation: what it produced so far must be a prefix
                if contents.len() > g.expect.len() || contents[..] != g.expect[..contents.len()] {
                    res.find(&["C18", "C10"], "outputs-differ-from-what-the-pipeline-produces", json!({"case": d, "got": contents, "expected_prefix_of": g.expect}));
                    bad = true;
                }
            }
            i = j;
        }
        if bad {
            continue;
        }
        // restart after stop: every stop older than 2.5 s (by id timestamp) must be followed by a start
        if let Some(end) = t_end_id {
            let stops: Vec<&&Frame> = mine.iter().filter(|f| f.topic.ends_with(".stop")).collect();
            for s in stops {
                let age_ms = end.timestamp().saturating_sub(s.id.timestamp());
                let restarted = mine.iter().any(|f| f.topic.ends_with(".start") && f.id > s.id);
                // progress witness: some other generator did get restarted after this stop
                let others_progress = log.iter().any(|f| f.topic.ends_with(".start") && f.id > s.id && meta_str(f, "source_id") != Some(&sid));
                if !restarted && age_ms > 8000 && others_progress {
                    res.find(&["C18"], "not-started-again-after-stop", json!({"case": d, "stop": s, "waited_ms": age_ms}));
                }
            }
        }
        if complete < 2 && !ok {
            res.inconclusive = Some(format!("fewer than two complete lifecycles of {} ({}: {}) in {:?}; topics: {:?}; stderr: {}", g.name, g.kind, g.expr, observed_for, mine.iter().map(|f| f.topic.clone()).take(8).collect::<Vec<_>>(), srv.stderr().chars().rev().take(300).collect::<String>().chars().rev().collect::<String>()));
        }
    }
    // spawns that cannot be honoured: exactly one spawn.error naming them, and no start
    for (f, why) in [(&nocontent, "no-content"), (&dup, "name-already-running")] {
        let name = f.topic.strip_suffix(".spawn").unwrap();
        let errs: Vec<&Frame> = log.iter().filter(|x| x.topic == format!("{}.spawn.error", name) && meta_str(x, "source_id") == Some(&f.id.to_string())).collect();
        if errs.len() != 1 {
            res.find(&["C18"], format!("spawn-error-count-wrong/{}", why), json!({"spawn": f, "spawn_error_frames": errs.len()}));
        } else if errs[0].context_id != f.context_id {
            res.find(&["C18", "C06"], "spawn-error-outside-the-spawn-context", json!({"spawn": f, "error": errs[0]}));
        }
        if log.iter().any(|x| x.topic == format!("{}.start", name) && meta_str(x, "source_id") == Some(&f.id.to_string())) {
            res.find(&["C18"], format!("refused-spawn-was-started/{}", why), json!({"spawn": f}));
        }
        res.count("refused_spawns_checked", 1);
    }
    // duplex: every token echoed exactly once, in order
    for (name, ctx, sp, tokens) in &duplex {
        let sid = sp.id.to_string();
        let recvs: Vec<&Frame> = log.iter().filter(|f| f.topic == format!("{}.recv", name) && meta_str(f, "source_id") == Some(&sid)).collect();
        let mut got = vec![];
        for r in &recvs {
            got.push(srv.content_str(r)?.unwrap_or_default());
            if r.context_id != *ctx {
                res.find(&["C18", "C06"], "generator-frame-outside-the-spawn-context", json!({"generator": name, "frame": r}));
            }
        }
        let want: Vec<String> = tokens.iter().map(|t| format!("echo:{}", t)).collect();
        res.count("duplex_tokens_checked", want.len() as u64);
        if got != want {
            if got.len() < want.len() && got[..] == want[..got.len()] && !dok {
                res.inconclusive = Some(format!("duplex echoes incomplete within the watchdog: {}/{}", got.len(), want.len()));
            } else {
                let mut gs = got.clone();
                gs.sort();
                gs.dedup();
                let sig = if gs.len() < got.len() { "duplex/input-fed-more-than-once" } else if got.len() < want.len() { "duplex/input-lost" } else if got.iter().any(|g| g.contains("noise")) { "duplex/fed-input-of-another-name" } else { "duplex/echoes-differ-or-out-of-order" };
                res.find(&["C18"], sig, json!({"generator": name, "got": got, "expected": want}));
            }
        }
    }
    // byte-fed duplex generator: every byte fed exactly once (chunk boundaries are nu's business), none lost, and the
    // instance survives non-UTF-8 input. The other duplex echoes being complete is the progress witness.
    {
        let mut fed = 0usize;
        let mut outs = vec![];
        let t0 = std::time::Instant::now();
        loop {
            srv.pull()?;
            let recvs: Vec<Frame> = srv.era_log().iter().filter(|f| f.topic == "dxb.recv" && meta_str(f, "source_id") == Some(&dxb_id)).cloned().collect();
            fed = 0;
            outs.clear();
            for r in &recvs {
                let c = srv.content_str(r)?.unwrap_or_default();
                fed += c.rsplit(':').next().and_then(|n| n.trim().parse::<usize>().ok()).unwrap_or(0);
                outs.push(c);
            }
            if fed >= dxb_bytes_sent || t0.elapsed() > Duration::from_secs(15) {
                break;
            }
            std::thread::sleep(Duration::from_millis(50));
        }
        res.count("duplex_bytes_checked", dxb_bytes_sent as u64);
        if fed != dxb_bytes_sent {
            let died = srv.era_log().iter().any(|f| f.topic == "dxb.stop" && meta_str(f, "source_id") == Some(&dxb_id));
            if fed < dxb_bytes_sent && !dok {
                res.inconclusive = Some(format!("byte-fed duplex generator: {} of {} bytes within the watchdog", fed, dxb_bytes_sent));
            } else {
                let sig = if fed > dxb_bytes_sent { "duplex/bytes-fed-more-than-once" } else { "duplex/bytes-lost" };
                res.find(&["C18"], sig, json!({"generator": "dxb", "bytes_sent": dxb_bytes_sent, "bytes_fed": fed, "outputs": outs, "stopped": died}));
            }
        }
    }
    res.count("lifecycles_checked", lifecycles_checked);
    res.nontrivial = lifecycles_checked >= 4;
    res.hash = fnv(&gens.iter().map(|g| g.expr.clone()).collect::<Vec<_>>().join("|"));
    if res.sample.is_none() {
        res.sample = Some(json!({"generators": gens.iter().map(|g| json!({"name": g.name, "expr": g.expr, "expect": g.expect})).collect::<Vec<_>>(), "duplex_tokens": duplex.iter().map(|d| d.3.clone()).collect::<Vec<_>>(), "observed_ms": observed_for.as_millis() as u64}));
    }
    Ok(())
}
