//! Seeded generators shared by the engines.

use serde_json::{json, Value};

use crate::rng::Rng;

pub const TOPIC_POOL: &[&str] = &[
    "", "a", "ab", "abc", "a.b", "a\u{1}", "a\u{1}b", "a\u{7f}", "a\u{80}", "a\u{ff}", "é", "日本", "a\u{10ffff}", "b", "topic", "a.b.c",
    // whitespace is part of a topic like any other byte
    " a", "a ", " ", "a\u{3000}",
];

pub const NUL_TOPICS: &[&str] = &["\0", "a\0", "a\0b", "\0a", "ab\0"];

pub fn long_topic() -> String {
    "L".repeat(300)
}

pub fn json_string(rng: &mut Rng) -> String {
    const PARTS: &[&str] = &[
        "", "x", "hello", "é", "日本語", "\u{1F600}", "\"", "\\", "\n", "\t", "\u{0}", "\u{1}", "\u{7f}", "\u{80}", "\u{ffff}", "\u{10ffff}", " ", "/", "a b", "null",
        "true", "1e5", "{}", "\u{2028}", "\u{feff}",
    ];
    let n = rng.below(4);
    let mut s = String::new();
    for _ in 0..n {
        s.push_str(*rng.pick::<&str>(PARTS));
    }
    s
}

/// Floats are restricted to values whose shortest decimal form parses back exactly:
/// serde_json (without `float_roundtrip`) may be 1 ULP off otherwise, which is outside what
/// the properties quantify over (see DESIGN §9).
fn float_ok(x: f64) -> bool {
    serde_json::from_str::<f64>(&serde_json::to_string(&x).unwrap()).map(|y| y.to_bits() == x.to_bits()).unwrap_or(false)
}

pub fn json_number(rng: &mut Rng) -> Value {
    let v = json_number_raw(rng);
    match v.as_f64() {
        Some(x) if v.is_f64() && !float_ok(x) => json!(1.5),
        _ => v,
    }
}

fn json_number_raw(rng: &mut Rng) -> Value {
    match rng.below(14) {
        0 => json!(0),
        1 => json!(-1),
        2 => json!(9007199254740991i64),
        3 => json!(9007199254740993i64),
        4 => json!(-9007199254740993i64),
        5 => json!(i64::MAX),
        6 => json!(i64::MIN),
        7 => json!(u64::MAX),
        8 => json!(1.5),
        9 => json!(-0.0),
        10 => json!(1e308),
        11 => json!(5e-324),
        12 => json!(rng.next() as i64),
        _ => json!((rng.next() % 1000) as f64 / 8.0),
    }
}

pub fn json_value(rng: &mut Rng, depth: u32) -> Value {
    let leaf = depth == 0 || rng.chance(400);
    if leaf {
        match rng.below(6) {
            0 => Value::Null,
            1 => json!(rng.chance(500)),
            2 | 3 => json_number(rng),
            _ => json!(json_string(rng)),
        }
    } else if rng.chance(500) {
        let n = rng.below(4);
        Value::Array((0..n).map(|_| json_value(rng, depth - 1)).collect())
    } else {
        let n = rng.below(4);
        let mut m = serde_json::Map::new();
        for _ in 0..n {
            m.insert(json_string(rng), json_value(rng, depth - 1));
        }
        Value::Object(m)
    }
}

/// meta as a user would pass it: usually an object (or absent)
pub fn meta(rng: &mut Rng) -> Option<Value> {
    match rng.below(10) {
        0 | 1 | 2 => None,
        3 => Some(json!({})),
        4 => Some(json_value(rng, 3)).filter(|v| !v.is_null()),
        _ => {
            let mut m = serde_json::Map::new();
            let n = 1 + rng.below(3);
            for i in 0..n {
                m.insert(format!("k{}", i), json_value(rng, 2));
            }
            Some(Value::Object(m))
        }
    }
}

pub fn nested(depth: usize, array: bool) -> Value {
    let mut v = json!(1);
    for _ in 0..depth {
        v = if array { json!([v]) } else { json!({"k": v}) };
    }
    v
}
