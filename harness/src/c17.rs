//! C17 — restart restores exactly the active handlers, generators and commands (real process,
//! SIGKILL or clean stop; probe differential across the restart plus an unambiguous model).

use std::collections::{BTreeMap, BTreeSet};
use std::time::Duration;

use scru128::Scru128Id;
use serde_json::{json, Value};

use xs::store::{Frame, ZERO_CONTEXT};

use crate::e5::*;
use crate::report::fnv;
use crate::rng::Rng;

fn handler_script(tag: &str) -> String {
    format!(
        r#"{{
  run: {{|frame|
    if $frame.topic == "fail" {{ error make {{msg: "failing-on-purpose"}} }}
    if $frame.topic == "slow" {{ sleep 4sec; return }}
    if $frame.topic == "slowfail" {{ sleep 1sec; error make {{msg: "failing-late"}} }}
    if $frame.topic != "probe" {{ return }}
    {{ans: $frame.id, tag: "{tag}"}}
  }}
}}"#
    )
}

fn command_script(tag: &str) -> String {
    format!("{{\n  run: {{|frame| [{{tag: \"{}\", arg: ($frame.meta.arg? | default \"none\")}}] | each {{|x| $x}} }}\n}}", tag)
}

fn cmd_list(m: &BTreeMap<(String, String), String>) -> Vec<Value> {
    m.iter().map(|(k, v)| json!([k.0, k.1, v])).collect()
}

#[derive(Default, Debug, Clone, PartialEq)]
struct Answers {
    /// (context, name, handler_id) answering the probe
    handlers: BTreeSet<(String, String, String)>,
    /// (context, name) -> command_id answering the probe call (absent = not answered)
    commands: BTreeMap<(String, String), String>,
    /// (context, name, source_id) of generators seen starting in the window
    generators: BTreeSet<(String, String, String)>,
}

fn ctx_label(c: &Scru128Id, ctxs: &[Scru128Id]) -> String {
    match ctxs.iter().position(|x| x == c) {
        Some(0) => "zero".into(),
        Some(i) => format!("ctx{}", i),
        None => c.to_string(),
    }
}

fn probe(srv: &mut Srv, ctxs: &[Scru128Id], cmd_names: &[&str], round: usize) -> R<(Answers, Vec<Frame>)> {
    let mark = srv.must_append("mark", ZERO_CONTEXT, None, Some(json!({"round": round})), None)?;
    let mut sent = vec![];
    for c in ctxs {
        sent.push(srv.must_append("probe", *c, None, Some(json!({"round": round})), None)?);
        for n in cmd_names {
            sent.push(srv.must_append(&format!("{}.call", n), *c, None, Some(json!({"arg": format!("p{}", round)})), None)?);
        }
    }
    // window: long enough for every running generator to show a start (1 s respawn delay); on a loaded
    // machine it is extended until every generator seen running earlier in this process has started again
    // (bounded), so that load cannot masquerade as "not restored"
    std::thread::sleep(Duration::from_millis(1500));
    let known: BTreeSet<(String, String)> = srv.era_log().iter().filter(|f| f.topic.ends_with(".start") && !f.topic.starts_with("cang")).filter_map(|f| meta_str(f, "source_id").map(|s| (f.topic.clone(), s.to_string()))).collect();
    let mark_id = mark.id;
    srv.wait(Duration::from_secs(12), |log| known.iter().all(|(t, s)| log.iter().any(|f| f.id > mark_id && &f.topic == t && meta_str(f, "source_id") == Some(s))))?;
    srv.settle(Duration::from_millis(300), Duration::from_secs(8))?;
    let mut a = Answers::default();
    let log: Vec<Frame> = srv.era_log().iter().filter(|f| f.id > mark.id).cloned().collect();
    for f in &log {
        if let Some(fid) = meta_str(f, "frame_id") {
            if let Some(p) = sent.iter().find(|s| s.id.to_string() == fid) {
                if p.topic == "probe" && f.topic.ends_with(".out") && !f.topic.starts_with("can") {
                    if let Some(h) = meta_str(f, "handler_id") {
                        a.handlers.insert((ctx_label(&f.context_id, ctxs), f.topic.trim_end_matches(".out").to_string(), h.to_string()));
                    }
                } else if p.topic.ends_with(".call") && f.topic.ends_with(".recv") && !f.topic.starts_with("can") {
                    if let Some(cid) = meta_str(f, "command_id") {
                        a.commands.insert((ctx_label(&f.context_id, ctxs), f.topic.trim_end_matches(".recv").to_string()), cid.to_string());
                    }
                }
            }
        }
        if f.topic.ends_with(".start") && !f.topic.starts_with("can") {
            if let Some(s) = meta_str(f, "source_id") {
                a.generators.insert((ctx_label(&f.context_id, ctxs), f.topic.trim_end_matches(".start").to_string(), s.to_string()));
            }
        }
    }
    Ok((a, sent))
}

pub fn run_case(seed: u64) -> CaseResult {
    let mut res = CaseResult::default();
    let mut srv = match Srv::start("c17") {
        Ok(s) => s,
        Err(e) => {
            res.inconclusive = Some(format!("start: {}", e));
            return res;
        }
    };
    let r = case(&mut srv, seed, &mut res);
    if let Err(e) = r {
        let stderr = srv.stderr();
        absorb(&mut res, &["C17"], e, stderr);
    }
    srv.finish();
    res
}

const HNAMES: [&str; 2] = ["h1", "h2"];
// (the second generator's name contains ".spawn" and has the first one's name as its prefix)
const GNAMES: [&str; 2] = ["g1", "g1.spawner"];
const CNAMES: [&str; 2] = ["c1", "c2"];

struct Hist {
    events: Vec<String>,
    /// model, only for what is unambiguous: handlers per (ctx, name)
    model_handlers: BTreeMap<(usize, &'static str), Option<Scru128Id>>,
    same_name_two_contexts: bool,
}

/// one segment of the history: `n_events` random lifecycle events (numbered from `ev_base`)
fn play_events(srv: &mut Srv, rng: &mut Rng, ctxs: &[Scru128Id; 3], n_events: usize, ev_base: usize, h: &mut Hist) -> R<()> {
    let (hnames, gnames, cnames) = (HNAMES, GNAMES, CNAMES);
    let events = &mut h.events;
    let model_handlers = &mut h.model_handlers;
    for ev in ev_base..ev_base + n_events {
        let ci = rng.below(3);
        let ctx = ctxs[ci];
        let kind = *rng.pick(&["h-register", "h-register", "h-unregister", "h-unregister-targeted", "h-fail", "h-register-bad", "g-spawn", "g-spawn", "g-spawn-nocontent", "g-spawn-nocontent-then-good", "c-define", "c-define", "c-define-bad", "c-call", "noise"]);
        match kind {
            "h-register" => {
                let n = *rng.pick(&hnames);
                let f = srv.must_append(&format!("{}.register", n), ctx, Some(handler_script(&format!("e{}", ev)).as_bytes()), None, None)?;
                let hid = f.id.to_string();
                let tn = format!("{}.registered", n);
                srv.wait(Duration::from_secs(20), |log| log.iter().any(|x| x.topic == tn && meta_str(x, "handler_id") == Some(&hid)))?;
                model_handlers.insert((ci, n), Some(f.id));
                if model_handlers.iter().any(|((c2, n2), v)| *n2 == n && *c2 != ci && v.is_some()) {
                    h.same_name_two_contexts = true;
                }
            }
            "h-unregister" => {
                let n = *rng.pick(&hnames);
                srv.must_append(&format!("{}.unregister", n), ctx, None, None, None)?;
                model_handlers.insert((ci, n), None);
            }
            "h-unregister-targeted" => {
                // an unregister that names the running instance in its meta (a supervisor, or the handler itself)
                let n = *rng.pick(&hnames);
                let current = model_handlers.get(&(ci, n)).cloned().flatten().map(|i| i.to_string());
                srv.must_append(&format!("{}.unregister", n), ctx, None, Some(json!({"handler_id": current, "reason": "targeted"})), None)?;
                model_handlers.insert((ci, n), None);
            }
            "h-fail" => {
                srv.must_append("fail", ctx, None, None, None)?;
                for n in hnames {
                    model_handlers.insert((ci, n), None);
                }
            }
            "h-register-bad" => {
                let n = *rng.pick(&hnames);
                srv.must_append(&format!("{}.register", n), ctx, Some(b"{run: {|| 1}}"), None, None)?;
                // the previous instance (if any) is stopped by the new register; the new one is refused
                model_handlers.insert((ci, n), None);
            }
            "g-spawn" => {
                let n = *rng.pick(&gnames);
                srv.must_append(&format!("{}.spawn", n), ctx, Some(format!("\"tick-{}-{}\"", n, ev).as_bytes()), None, None)?;
            }
            "g-spawn-nocontent-then-good" => {
                // a spawn that cannot be honoured immediately followed by a good one of the same name: the error
                // report of the first is written asynchronously and may land after the second spawn
                let n = *rng.pick(&gnames);
                let v = srv.call(json!({"op": "append_pair", "topic": format!("{}.spawn", n), "ctx": ctx.to_string(), "second_content_b64": crate::session::b64(format!("\"tick-{}-{}\"", n, ev).as_bytes())}))?;
                if v.get("ok").is_none() {
                    return Err(crate::session::SessionError::Harness(format!("append_pair: {}", v)));
                }
            }
            "g-spawn-nocontent" => {
                let n = *rng.pick(&gnames);
                srv.must_append(&format!("{}.spawn", n), ctx, None, None, None)?;
            }
            "c-define" => {
                let n = *rng.pick(&cnames);
                // some definitions are byte-identical (the same script deployed under two names, in two contexts, or again)
                let tag = if rng.chance(350) { "same-script".to_string() } else { format!("d{}", ev) };
                srv.must_append(&format!("{}.define", n), ctx, Some(command_script(&tag).as_bytes()), None, None)?;
            }
            "c-define-bad" => {
                let n = *rng.pick(&cnames);
                srv.must_append(&format!("{}.define", n), ctx, Some(b"{norun: 1}"), None, None)?;
            }
            "c-call" => {
                let n = *rng.pick(&cnames);
                srv.must_append(&format!("{}.call", n), ctx, None, Some(json!({"arg": format!("hist{}", ev)})), None)?;
            }
            _ => {
                srv.must_append("noise", ctx, None, None, None)?;
            }
        }
        events.push(format!("{}@{}", kind, ci));
        if rng.chance(500) {
            srv.settle(Duration::from_millis(40), Duration::from_secs(5))?;
        }
    }
    Ok(())
}

fn case(srv: &mut Srv, seed: u64, res: &mut CaseResult) -> R<()> {
    let mut rng = Rng::new(seed);
    let a = srv.new_context()?;
    let b = srv.new_context()?;
    let ctxs = [ZERO_CONTEXT, a, b];
    let cnames = CNAMES;
    let mut h = Hist { events: vec![], model_handlers: BTreeMap::new(), same_name_two_contexts: false };
    let n_events = 10 + rng.below(12);
    play_events(srv, &mut rng, &ctxs, n_events, 0, &mut h)?;
    let mut ev_next = n_events;
    if rng.chance(400) {
        // directed: the newest definition of a name is invalid, an older one is valid (latest *valid* one wins,
        // before and after a restart alike)
        let n = *rng.pick(&cnames);
        srv.must_append(&format!("{}.define", n), ZERO_CONTEXT, Some(command_script("directed-valid").as_bytes()), None, None)?;
        srv.settle(Duration::from_millis(60), Duration::from_secs(5))?;
        srv.must_append(&format!("{}.define", n), ZERO_CONTEXT, Some(b"{norun: 1}"), None, None)?;
        h.events.push(format!("directed:valid-then-invalid-define:{}", n));
        res.count("directed.valid_then_invalid_define", 1);
    }
    srv.settle(Duration::from_millis(300), Duration::from_secs(10))?;
    let restarts = 1 + rng.below(2);
    let (mut before, mut sent_before) = probe(srv, &ctxs, &cnames, 0)?;
    // the unambiguous part of the model: handlers
    let model_set: BTreeSet<(String, String, String)> = h
        .model_handlers
        .iter()
        .filter_map(|((ci, n), v)| v.map(|id| (ctx_label(&ctxs[*ci], &ctxs), n.to_string(), id.to_string())))
        .collect();
    let d0 = json!({"events": h.events, "same_handler_name_in_two_contexts": h.same_name_two_contexts});
    if before.handlers != model_set {
        res.find(&["C16"], "before-restart/answering-handlers-differ-from-the-model", json!({"case": d0, "answering": before.handlers, "model": model_set}));
    }
    if rng.chance(350) {
        // directed: a handler is replaced while it is busy and then *fails*: its failure report (an `.unregistered`
        // carrying an error) lands after the replacement's registration; the replacement is what is active
        if let Some(old) = before.handlers.iter().next().cloned() {
            let ci = ctxs.iter().position(|c| ctx_label(c, &ctxs) == old.0).unwrap_or(0);
            srv.must_append("slowfail", ctxs[ci], None, None, None)?;
            std::thread::sleep(Duration::from_millis(150));
            let f = srv.must_append(&format!("{}.register", old.1), ctxs[ci], Some(handler_script("replacement-of-a-failing-one").as_bytes()), None, None)?;
            let (hid, tn) = (f.id.to_string(), format!("{}.registered", old.1));
            let announced = srv.wait(Duration::from_secs(5), |log| log.iter().any(|x| x.topic == tn && meta_str(x, "handler_id") == Some(&hid)))?;
            let un = format!("{}.unregistered", old.1);
            let reported = srv.wait(Duration::from_secs(8), |log| log.iter().any(|x| x.topic == un && meta_str(x, "handler_id") == Some(&old.2)))?;
            if announced && reported {
                srv.settle(Duration::from_millis(300), Duration::from_secs(10))?;
                // every other handler of that context failed on the same frame
                for n in HNAMES {
                    h.model_handlers.insert((ci, n), None);
                }
                if let Some(n) = HNAMES.iter().find(|n| **n == old.1) {
                    h.model_handlers.insert((ci, *n), Some(f.id));
                }
                h.events.push(format!("directed:replaced-while-busy-then-failed:{}@{}", old.1, ci));
                res.count("directed.failure_report_after_replacement", 1);
                let (b2, _) = probe(srv, &ctxs, &cnames, 5)?;
                let model_set: BTreeSet<(String, String, String)> = h
                    .model_handlers
                    .iter()
                    .filter_map(|((ci, n), v)| v.map(|id| (ctx_label(&ctxs[*ci], &ctxs), n.to_string(), id.to_string())))
                    .collect();
                if b2.handlers != model_set {
                    res.find(&["C16"], "before-restart/answering-handlers-differ-from-the-model", json!({"events": h.events, "answering": b2.handlers, "model": model_set}));
                }
                before = b2;
            } else {
                res.inconclusive = Some("the busy-then-failing replacement scenario did not play out within its watchdogs".into());
                return Ok(());
            }
        }
    }
    for r in 0..restarts {
        let mut kill = rng.chance(700);
        let mut replaced_busy: Option<(String, String, String)> = None;
        if r == 0 && rng.chance(350) {
            // directed: replace a handler while it is busy in a slow closure and kill the server before the old
            // instance has written its `.unregistered`; the stored history says: replaced
            if let Some(old) = before.handlers.iter().next().cloned() {
                let ci = ctxs.iter().position(|c| ctx_label(c, &ctxs) == old.0).unwrap_or(0);
                srv.must_append("slow", ctxs[ci], None, None, None)?;
                std::thread::sleep(Duration::from_millis(200));
                let f = srv.must_append(&format!("{}.register", old.1), ctxs[ci], Some(handler_script("replacement").as_bytes()), None, None)?;
                let (hid, tn) = (f.id.to_string(), format!("{}.registered", old.1));
                let announced = srv.wait(Duration::from_secs(3), |log| log.iter().any(|x| x.topic == tn && meta_str(x, "handler_id") == Some(&hid)))?;
                let old_gone = srv.log.iter().any(|x| x.topic == format!("{}.unregistered", old.1) && meta_str(x, "handler_id") == Some(&old.2));
                if announced {
                    kill = true;
                    // every handler of that context is busy with "slow" and gets killed with the server; what the
                    // history says is active afterwards: the same set with the replacement in place of the old one
                    before.handlers.remove(&old);
                    before.handlers.insert((old.0.clone(), old.1.clone(), hid.clone()));
                    if let Some(n) = HNAMES.iter().find(|n| **n == old.1) {
                        h.model_handlers.insert((ci, *n), Some(f.id));
                    }
                    h.events.push(format!("directed:replace-busy-handler-then-kill:{}@{}", old.1, ci));
                    res.count("directed.replace_busy_then_kill", 1);
                    if !old_gone {
                        res.count("directed.killed_before_old_unregistered", 1);
                    }
                    replaced_busy = Some(old);
                } else {
                    res.inconclusive = Some("the replacement of a busy handler was not announced within 3 s".into());
                    return Ok(());
                }
            }
        }
        let pre_restart_ids: BTreeSet<String> = srv.log.iter().map(|f| f.id.to_string()).collect();
        let watermark = srv.log.iter().map(|f| f.id).max().unwrap_or(ZERO_CONTEXT);
        srv.restart(kill)?;
        res.count(if kill { "restarts.sigkill" } else { "restarts.clean" }, 1);
        // the serve loops replay history up to their threshold, then start what was active; each loop handles
        // later frames only after that, so a canary per loop (registered / spawned / called now) that answers
        // proves the loop has finished restoring
        let cr = srv.must_append("canh.register", ZERO_CONTEXT, Some(handler_script("canary").as_bytes()), None, None)?;
        // (a generator cannot be taken away again: one canary name per restart; they stay out of every comparison)
        let cang = format!("cang{}", srv.log.len());
        let cs = srv.must_append(&format!("{}.spawn", cang), ZERO_CONTEXT, Some(b"\"canary\""), None, None)?;
        let cang_start = format!("{}.start", cang);
        srv.must_append("canc.define", ZERO_CONTEXT, Some(command_script("canary").as_bytes()), None, None)?;
        let cc = srv.must_append("canc.call", ZERO_CONTEXT, None, None, None)?;
        let (crid, csid, ccid) = (cr.id.to_string(), cs.id.to_string(), cc.id.to_string());
        let live = srv.wait(Duration::from_secs(40), |log| {
            log.iter().any(|f| f.topic == "canh.registered" && meta_str(f, "handler_id") == Some(&crid))
                && log.iter().any(|f| f.topic == cang_start && meta_str(f, "source_id") == Some(&csid))
                && log.iter().any(|f| (f.topic == "canc.complete" || f.topic == "canc.error") && meta_str(f, "frame_id") == Some(&ccid))
        })?;
        if !live {
            res.inconclusive = Some("the serve loops did not answer their canaries within 40 s after the restart".into());
            return Ok(());
        }
        // the canary handler would answer probes too: take it away again
        srv.must_append("canh.unregister", ZERO_CONTEXT, None, None, None)?;
        srv.wait(Duration::from_secs(20), |log| log.iter().any(|f| f.topic == "canh.unregistered" && meta_str(f, "handler_id") == Some(&crid)))?;
        srv.settle(Duration::from_millis(300), Duration::from_secs(15))?;
        let (after, sent_after) = probe(srv, &ctxs, &cnames, r + 1)?;
        let d = json!({"events": h.events, "restart": r, "kill": kill, "same_handler_name_in_two_contexts": h.same_name_two_contexts});
        if after.handlers != before.handlers {
            let lost: Vec<_> = before.handlers.difference(&after.handlers).collect();
            let came_back: Vec<_> = after.handlers.difference(&before.handlers).collect();
            let sig = if replaced_busy.as_ref().map(|o| after.handlers.contains(o)).unwrap_or(false) {
                "replaced-handler-comes-back-after-restart"
            } else if !lost.is_empty() {
                "handler-active-before-restart-does-not-answer-after"
            } else {
                "handler-answers-after-restart-that-did-not-before"
            };
            res.find(&["C17"], sig, json!({"case": d, "lost": lost, "came_back": came_back, "before": before.handlers, "after": after.handlers}));
        }
        if after.commands != before.commands {
            res.find(&["C17", "C19"], "command-answers-differ-across-restart", json!({"case": d, "before": cmd_list(&before.commands), "after": cmd_list(&after.commands)}));
        }
        // generators: exactly those whose latest spawn (per context and name) succeeded, with the same id
        let mut latest_spawn: BTreeMap<(String, String), Frame> = BTreeMap::new();
        for f in srv.log.iter().filter(|f| f.id <= watermark && f.topic.ends_with(".spawn") && !f.topic.starts_with("can")) {
            latest_spawn.insert((ctx_label(&f.context_id, &ctxs), f.topic.trim_end_matches(".spawn").to_string()), f.clone());
        }
        let expected_gens: BTreeSet<(String, String, String)> = latest_spawn
            .iter()
            .filter(|(_, sp)| srv.log.iter().any(|f| f.topic.ends_with(".start") && meta_str(f, "source_id") == Some(&sp.id.to_string())))
            .map(|((c, n), sp)| (c.clone(), n.clone(), sp.id.to_string()))
            .collect();
        if after.generators != expected_gens {
            let lost: Vec<_> = expected_gens.difference(&after.generators).collect();
            let extra: Vec<_> = after.generators.difference(&expected_gens).collect();
            let sig = if !lost.is_empty() { "generator-whose-latest-spawn-succeeded-not-started-after-restart" } else { "generator-started-after-restart-whose-latest-spawn-did-not-succeed" };
            res.find(&["C17", "C18"], sig, json!({"case": d, "lost": lost, "extra": extra, "expected": expected_gens, "running_before": before.generators, "after": after.generators}));
        }
        // historical triggers / calls are not re-executed: no new frame refers to a pre-restart trigger
        let new_frames: Vec<Frame> = srv.era_log().iter().filter(|f| f.id > watermark && !is_synth(f)).cloned().collect();
        for f in &new_frames {
            if let Some(fid) = meta_str(f, "frame_id") {
                if pre_restart_ids.contains(fid) && (f.topic.ends_with(".out") || f.topic.ends_with(".recv") || f.topic.ends_with(".complete") || f.topic.ends_with(".error")) {
                    let old = srv.log.iter().find(|x| x.id.to_string() == fid).map(|x| x.topic.clone()).unwrap_or_default();
                    // an .error for a definition that was invalid before is re-reported on every start: not a re-execution of a call
                    if f.topic.ends_with(".error") && old.ends_with(".define") {
                        continue;
                    }
                    if old.ends_with(".define") || old.ends_with(".register") {
                        continue;
                    }
                    res.find(&["C17", "C19"], "historical-trigger-or-call-re-executed-after-restart", json!({"case": d, "new_frame": f, "refers_to_topic": old}));
                }
            }
        }
        res.count("probe_answers_compared", (before.handlers.len() + before.commands.len() + before.generators.len()) as u64);
        res.count("restarts", 1);
        let _ = sent_after;
        before = after;
        sent_before = vec![];
        if r + 1 < restarts && rng.chance(650) {
            // "every restart point": the history goes on after this restart (on top of what start-up restored)
            // and the next restart comes after that
            let n2 = 4 + rng.below(7);
            h.events.push("|restart|".into());
            play_events(srv, &mut rng, &ctxs, n2, ev_next, &mut h)?;
            ev_next += n2;
            srv.settle(Duration::from_millis(300), Duration::from_secs(10))?;
            let (b2, _) = probe(srv, &ctxs, &cnames, 10 + r)?;
            let model_set: BTreeSet<(String, String, String)> = h
                .model_handlers
                .iter()
                .filter_map(|((ci, n), v)| v.map(|id| (ctx_label(&ctxs[*ci], &ctxs), n.to_string(), id.to_string())))
                .collect();
            if b2.handlers != model_set {
                res.find(&["C16", "C17"], "after-restart-and-more-events/answering-handlers-differ-from-the-model", json!({"events": h.events, "answering": b2.handlers, "model": model_set}));
            }
            before = b2;
            res.count("mid_history_restart_points", 1);
        }
    }
    let _ = sent_before;
    res.nontrivial = !before.handlers.is_empty() || !before.generators.is_empty() || !before.commands.is_empty();
    res.seen("same_name_in_two_contexts", h.same_name_two_contexts.to_string());
    res.hash = fnv(&h.events.join(","));
    if res.sample.is_none() {
        res.sample = Some(json!({"events": h.events, "answers_before_restart": {"handlers": before.handlers, "commands": before.commands.iter().map(|(k, v)| json!([k.0, k.1, v])).collect::<Vec<Value>>(), "generators": before.generators}}));
    }
    Ok(())
}


// ---------------------------------------------------------------------------
// the same differential against the stand-alone binary (`xs serve`, src/main.rs wiring), driven over HTTP
// ---------------------------------------------------------------------------

struct Bin {
    child: std::process::Child,
}

impl Drop for Bin {
    fn drop(&mut self) {
        let _ = self.child.kill();
        let _ = self.child.wait();
    }
}

fn start_bin(dir: &std::path::Path) -> Option<Bin> {
    use std::process::{Command, Stdio};
    let bin = crate::session::self_exe().parent()?.join("xs-real");
    if !bin.exists() {
        return None;
    }
    let child = Command::new(bin).arg("serve").arg(dir).stdin(Stdio::null()).stdout(Stdio::null()).stderr(Stdio::null()).spawn().ok()?;
    let b = Bin { child };
    for _ in 0..2000 {
        if std::os::unix::net::UnixStream::connect(dir.join("sock")).is_ok() {
            return Some(b);
        }
        std::thread::sleep(Duration::from_millis(5));
    }
    None
}

fn http_frames(sock: &std::path::Path) -> Vec<Frame> {
    match crate::http::once(sock, &crate::http::Req::new("GET", "/"), Duration::from_secs(20)) {
        Ok(r) => crate::http::ndjson(&r.body).into_iter().filter_map(|v| serde_json::from_value(v).ok()).collect(),
        Err(_) => vec![],
    }
}

fn http_post(sock: &std::path::Path, target: &str, body: &[u8], meta: Option<Value>) -> Option<Frame> {
    use base64::Engine as _;
    let mut req = crate::http::Req::new("POST", target).body(body);
    if let Some(m) = meta {
        req = req.header("xs-meta", base64::engine::general_purpose::STANDARD.encode(serde_json::to_string(&m).unwrap()).as_bytes());
    }
    let r = crate::http::once(sock, &req, Duration::from_secs(20)).ok()?;
    serde_json::from_slice(&r.body).ok()
}

fn bin_probe(sock: &std::path::Path, ctxs: &[Scru128Id], round: usize) -> Answers {
    let mark = http_post(sock, "/mark", b"", None);
    let mut sent: Vec<Frame> = vec![];
    for c in ctxs {
        if let Some(f) = http_post(sock, &format!("/probe?context={}", c), b"", Some(json!({"round": round}))) {
            sent.push(f);
        }
        if let Some(f) = http_post(sock, &format!("/c1.call?context={}", c), b"", Some(json!({"arg": format!("p{}", round)}))) {
            sent.push(f);
        }
    }
    std::thread::sleep(Duration::from_millis(1700));
    let mut a = Answers::default();
    let mark_id = mark.map(|m| m.id).unwrap_or(ZERO_CONTEXT);
    for f in http_frames(sock).iter().filter(|f| f.id > mark_id) {
        if let Some(fid) = meta_str(f, "frame_id") {
            if let Some(p) = sent.iter().find(|s| s.id.to_string() == fid) {
                if p.topic == "probe" && f.topic.ends_with(".out") {
                    if let Some(h) = meta_str(f, "handler_id") {
                        a.handlers.insert((ctx_label(&f.context_id, ctxs), f.topic.trim_end_matches(".out").to_string(), h.to_string()));
                    }
                } else if p.topic.ends_with(".call") && f.topic.ends_with(".recv") {
                    if let Some(cid) = meta_str(f, "command_id") {
                        a.commands.insert((ctx_label(&f.context_id, ctxs), "c1".to_string()), cid.to_string());
                    }
                }
            }
        }
        if f.topic.ends_with(".start") {
            if let Some(s) = meta_str(f, "source_id") {
                a.generators.insert((ctx_label(&f.context_id, ctxs), f.topic.trim_end_matches(".start").to_string(), s.to_string()));
            }
        }
    }
    a
}

pub fn run_binary_case(seed: u64) -> CaseResult {
    let mut res = CaseResult::default();
    let mut rng = Rng::new(seed);
    let dir = crate::session::work_dir("c17bin");
    let sock = dir.join("sock");
    let Some(mut bin) = start_bin(&dir) else {
        res.inconclusive = Some("xs-real serve did not come up".into());
        crate::session::rm_dir(&dir);
        return res;
    };
    let a = http_post(&sock, "/xs.context", b"", None).map(|f| f.id);
    let Some(a) = a else {
        res.inconclusive = Some("could not register a context over HTTP".into());
        crate::session::rm_dir(&dir);
        return res;
    };
    let ctxs = [ZERO_CONTEXT, a];
    // the same names in both contexts; one handler unregistered again; one generator refused
    for (i, c) in ctxs.iter().enumerate() {
        http_post(&sock, &format!("/h1.register?context={}", c), handler_script(&format!("bin{}", i)).as_bytes(), None);
        http_post(&sock, &format!("/g{}.spawn?context={}", i, c), format!("\"tick-bin{}\"", i).as_bytes(), None);
    }
    http_post(&sock, &format!("/h2.register?context={}", a), handler_script("gone").as_bytes(), None);
    http_post(&sock, "/c1.define", command_script("bin").as_bytes(), None);
    std::thread::sleep(Duration::from_millis(400));
    http_post(&sock, &format!("/h2.unregister?context={}", a), b"", None);
    http_post(&sock, "/g9.spawn", b"", None); // refused: no content (its latest spawn failed: must not come up)
    std::thread::sleep(Duration::from_millis(600));
    let before = bin_probe(&sock, &ctxs, 0);
    let d = json!({"binary": "xs-real serve", "before": {"handlers": before.handlers, "generators": before.generators, "commands": before.commands.iter().map(|(k, v)| json!([k.0, k.1, v])).collect::<Vec<_>>()}});
    if before.handlers.len() != 2 || before.generators.len() != 2 || before.commands.is_empty() {
        // the stand-alone server does not run what was registered: the wiring of main::serve is what this leg is about
        res.find(&["C17"], "binary/registered-components-do-not-answer-before-any-restart", d.clone());
    }
    let restarts = 1 + rng.below(2);
    let mut prev = before;
    for r in 0..restarts {
        let pre_ids: BTreeSet<String> = http_frames(&sock).iter().map(|f| f.id.to_string()).collect();
        drop(bin); // SIGKILL
        bin = match start_bin(&dir) {
            Some(b) => b,
            None => {
                res.find(&["C17", "C04"], "binary/server-does-not-come-up-after-sigkill", d.clone());
                crate::session::rm_dir(&dir);
                return res;
            }
        };
        std::thread::sleep(Duration::from_millis(700));
        let after = bin_probe(&sock, &ctxs, r + 1);
        if after != prev {
            res.find(&["C17"], "binary/answers-differ-across-restart", json!({"case": d, "restart": r, "before": {"handlers": prev.handlers, "generators": prev.generators}, "after": {"handlers": after.handlers, "generators": after.generators, "commands": after.commands.iter().map(|(k, v)| json!([k.0, k.1, v])).collect::<Vec<_>>()}}));
        }
        for f in http_frames(&sock).iter().filter(|f| !pre_ids.contains(&f.id.to_string())) {
            if let Some(fid) = meta_str(f, "frame_id") {
                if pre_ids.contains(fid) && (f.topic.ends_with(".out") || f.topic.ends_with(".recv") || f.topic.ends_with(".complete")) {
                    res.find(&["C17", "C19"], "binary/historical-trigger-or-call-re-executed-after-restart", json!({"case": d, "new_frame": f}));
                }
            }
        }
        res.count("restarts", 1);
        res.count("restarts.binary_sigkill", 1);
        res.count("probe_answers_compared", (after.handlers.len() + after.generators.len() + after.commands.len()) as u64);
        prev = after;
    }
    drop(bin);
    res.nontrivial = true;
    res.hash = fnv(&format!("bin{}", seed % 4));
    res.sample = Some(d);
    crate::session::rm_dir(&dir);
    res
}
