//! C15 — handler output is stamped, scoped, ordered and all-or-nothing per call
//! (generated handler programs; per-trigger trace spec).

use std::time::Duration;

use serde_json::{json, Value};

use xs::store::{Frame, TTL, ZERO_CONTEXT};

use crate::e5::*;
use crate::report::fnv;
use crate::rng::Rng;

#[derive(Clone, Debug)]
struct AppendStmt {
    topic: String,
    meta: Option<&'static str>,
    meta_expect: Option<Value>,
    ttl: Option<&'static str>,
    context: &'static str, // "", "own", "other", "zero"
}

#[derive(Clone, Debug)]
struct Program {
    appends: Vec<AppendStmt>,
    ret: &'static str,
    fail_at: Option<usize>, // statement index before which `error make` is inserted (== appends.len(): after all appends)
    fail_kind: &'static str,
    suffix: Option<&'static str>,
    ret_ttl: Option<&'static str>,
}

fn parse_ttl(s: &str) -> Option<TTL> {
    serde_json::from_value(json!(s)).ok()
}

fn gen_program(rng: &mut Rng) -> Program {
    let k = rng.below(5);
    let mut appends = vec![];
    for i in 0..k {
        let (meta, meta_expect): (Option<&'static str>, Option<Value>) = match rng.below(5) {
            0 | 1 => (None, None),
            2 => (Some("{a: 1, s: \"é\"}"), Some(json!({"a": 1, "s": "é"}))),
            3 => (Some("{handler_id: \"fake\", frame_id: \"fake\", keep: true}"), Some(json!({"keep": true}))),
            _ => (Some("{nested: {x: [1 2]}}"), Some(json!({"nested": {"x": [1, 2]}}))),
        };
        appends.push(AppendStmt {
            topic: format!("out.a{}", i),
            meta,
            meta_expect,
            ttl: *rng.pick(&[None, None, Some("forever"), Some("ephemeral"), Some("time:100000000000"), Some("head:2")]),
            context: *rng.pick(&["", "", "own", "other", "zero"]),
        });
    }
    let fail = rng.chance(350);
    Program {
        fail_at: if fail { Some(rng.below(k + 1)) } else { None },
        fail_kind: *rng.pick(&["error-make", "error-make", "missing-column", "meta-not-a-record", "meta-null-at-run-time"]),
        appends,
        ret: *rng.pick(&["nothing", "string", "int", "float", "bool", "list", "record", "empty-string", "empty-list", "empty-record", "zero", "false", "frame-of-another-handler", "frame-like-record"]),
        // (a suffix is appended to the name as it is: with one leading dot, none, or two)
        suffix: *rng.pick(&[None, None, Some(".res"), Some(".done.x"), Some("-result"), Some("..deep")]),
        ret_ttl: *rng.pick(&[None, None, Some("head:1"), Some("ephemeral"), Some("forever")]),
    }
}

fn script(p: &Program, own: &str, other: &str) -> String {
    let mut body = String::new();
    body.push_str("    if $frame.topic != \"trig\" { return }\n");
    let fail_stmt = match p.fail_kind {
        "error-make" => "    error make {msg: \"boom-on-purpose\"}\n".to_string(),
        "missing-column" => "    let x = $frame.meta.does_not_exist.deeper\n".to_string(),
        // (a value that is null only at run time, e.g. the forwarded meta of a trigger that has none)
        "meta-null-at-run-time" => "    \"x\" | .append out.bad --meta $frame.meta?.absent?\n".to_string(),
        _ => "    \"x\" | .append out.bad --meta $frame.topic\n".to_string(),
    };
    for (i, a) in p.appends.iter().enumerate() {
        if p.fail_at == Some(i) {
            body.push_str(&fail_stmt);
        }
        let mut stmt = format!("    $\"c{}-($frame.id)\" | .append {}", i, a.topic);
        if let Some(m) = a.meta {
            stmt.push_str(&format!(" --meta {}", m));
        }
        if let Some(t) = a.ttl {
            stmt.push_str(&format!(" --ttl \"{}\"", t));
        }
        match a.context {
            "own" => stmt.push_str(&format!(" --context \"{}\"", own)),
            "other" => stmt.push_str(&format!(" --context \"{}\"", other)),
            "zero" => stmt.push_str(" --context \"0000000000000000000000000\""),
            _ => {}
        }
        body.push_str(&stmt);
        body.push('\n');
    }
    if p.fail_at == Some(p.appends.len()) {
        body.push_str(&fail_stmt);
    }
    match p.ret {
        "string" => body.push_str("    $\"ret-($frame.id)\"\n"),
        "int" => body.push_str("    42\n"),
        "float" => body.push_str("    1.5\n"),
        "bool" => body.push_str("    true\n"),
        "list" => body.push_str("    [1 \"a\" {x: 2}]\n"),
        "record" => body.push_str("    {a: 1, id: $frame.id}\n"),
        // a record that looks like a frame some *other* handler appended (a handler passing on what it was given,
        // or the result of .head/.get): it is a return value like any other
        "frame-of-another-handler" => body.push_str("    {id: $frame.id, topic: \"up.out\", context_id: $frame.context_id, meta: {handler_id: \"03gy4klv2h02u3x987n90p9hd\", frame_id: $frame.id}}\n"),
        "frame-like-record" => body.push_str("    {id: $frame.id, topic: \"plain\", meta: {note: \"no handler id here\"}}\n"),
        "empty-string" => body.push_str("    \"\"\n"),
        "empty-list" => body.push_str("    []\n"),
        "empty-record" => body.push_str("    {}\n"),
        "zero" => body.push_str("    0\n"),
        "false" => body.push_str("    false\n"),
        _ => {
            if p.appends.is_empty() && p.fail_at.is_none() {
                body.push_str("    null\n");
            }
        }
    }
    let mut ro = String::new();
    if p.suffix.is_some() || p.ret_ttl.is_some() {
        ro.push_str("  return_options: {");
        if let Some(s) = p.suffix {
            ro.push_str(&format!("suffix: \"{}\" ", s));
        }
        if let Some(t) = p.ret_ttl {
            ro.push_str(&format!("ttl: \"{}\"", t));
        }
        ro.push_str("}\n");
    }
    format!("{{\n{}  run: {{|frame|\n{}  }}\n}}", ro, body)
}

const CANARY: &str = r#"{
  run: {|frame|
    if $frame.topic != "trig" { return }
    {canary: $frame.id}
  }
}"#;

fn expected_ret(p: &Program, trig: &str) -> Option<Value> {
    match p.ret {
        "string" => Some(json!(format!("ret-{}", trig))),
        "int" => Some(json!(42)),
        "float" => Some(json!(1.5)),
        "bool" => Some(json!(true)),
        "list" => Some(json!([1, "a", {"x": 2}])),
        "record" => Some(json!({"a": 1, "id": trig})),
        "frame-of-another-handler" => Some(json!({"id": trig, "topic": "up.out", "context_id": "__CTX__", "meta": {"handler_id": "03gy4klv2h02u3x987n90p9hd", "frame_id": trig}})),
        "frame-like-record" => Some(json!({"id": trig, "topic": "plain", "meta": {"note": "no handler id here"}})),
        "empty-string" => Some(json!("")),
        "empty-list" => Some(json!([])),
        "empty-record" => Some(json!({})),
        "zero" => Some(json!(0)),
        "false" => Some(json!(false)),
        _ => None,
    }
}

pub fn run_case(seed: u64) -> CaseResult {
    let mut res = CaseResult::default();
    let mut srv = match Srv::start("c15") {
        Ok(s) => s,
        Err(e) => {
            res.inconclusive = Some(format!("start: {}", e));
            return res;
        }
    };
    let r = case(&mut srv, seed, &mut res);
    if let Err(e) = r {
        let stderr = srv.stderr();
        absorb(&mut res, &["C15"], e, stderr);
    }
    srv.finish();
    res
}

fn case(srv: &mut Srv, seed: u64, res: &mut CaseResult) -> R<()> {
    let mut rng = Rng::new(seed);
    let ctx_a = srv.new_context()?;
    let ctx_b = srv.new_context()?;
    let ctx = if rng.chance(250) { ZERO_CONTEXT } else { ctx_a };
    let other = if ctx == ctx_a { ctx_b } else { ctx_a };
    let p = gen_program(&mut rng);
    let src = script(&p, &ctx.to_string(), &other.to_string());
    res.seen("program_shapes", format!("k={}/ret={}/fail={:?}:{}/suffix={:?}/ttl={:?}", p.appends.len(), p.ret, p.fail_at, if p.fail_at.is_some() { p.fail_kind } else { "-" }, p.suffix, p.ret_ttl));
    // canary first: a sequential consumer of the same context that demonstrably processes every trigger
    srv.must_append("canary.register", ctx, Some(CANARY.as_bytes()), None, None)?;
    let reg = srv.must_append("h.register", ctx, Some(src.as_bytes()), None, None)?;
    let hid = reg.id.to_string();
    let ok = srv.wait(Duration::from_secs(30), |log| {
        log.iter().any(|f| (f.topic == "h.registered" || f.topic == "h.unregistered") && meta_str(f, "handler_id") == Some(&hid)) && log.iter().any(|f| f.topic == "canary.registered")
    })?;
    if !ok {
        res.inconclusive = Some("handlers never announced".into());
        return Ok(());
    }
    if let Some(u) = srv.era_log().iter().find(|f| f.topic == "h.unregistered" && meta_str(f, "handler_id") == Some(&hid)) {
        // the generated script itself was rejected: a generator bug, not a verdict
        res.inconclusive = Some(format!("generated script rejected at registration: {:?}\n{}", u.meta, src));
        return Ok(());
    }
    let n_trig = 3;
    let mut trigs: Vec<Frame> = vec![];
    for i in 0..n_trig {
        let t = srv.must_append("trig", ctx, None, Some(json!({"i": i})), None)?;
        trigs.push(t);
        // unrelated traffic between triggers
        srv.must_append("noise", ctx, None, None, None)?;
        srv.must_append("trig", other, None, None, None)?;
    }
    // quiescence: the canary answered the last trigger, plus a grace period for the handler under test
    let last = trigs.last().unwrap().id.to_string();
    let reached = srv.wait(Duration::from_secs(30), |log| log.iter().any(|f| f.topic == "canary.out" && meta_str(f, "frame_id") == Some(&last)))?;
    if !reached {
        res.inconclusive = Some("canary did not answer the last trigger within 30 s".into());
        return Ok(());
    }
    let expect_ok = p.fail_at.is_none();
    let ret_topic = format!("h{}", p.suffix.unwrap_or(".out"));
    let per_trigger = p.appends.len() + if expected_ret(&p, "").is_some() { 1 } else { 0 };
    if expect_ok {
        // wait for the expected number of outputs (bounded), then a short grace for extras
        let want = per_trigger * n_trig;
        srv.wait(Duration::from_secs(20), |log| log.iter().filter(|f| meta_str(f, "handler_id") == Some(&hid) && f.topic != "h.registered").count() >= want)?;
    } else {
        srv.wait(Duration::from_secs(20), |log| log.iter().any(|f| f.topic == "h.unregistered" && meta_str(f, "handler_id") == Some(&hid)))?;
    }
    srv.settle(Duration::from_millis(200), Duration::from_secs(5))?;
    let log: Vec<Frame> = srv.era_log().iter().filter(|f| !is_synth(f)).cloned().collect();
    let d = json!({"handler_id": hid, "context": ctx.to_string(), "script": src});
    let mine: Vec<&Frame> = log.iter().filter(|f| meta_str(f, "handler_id") == Some(&hid) && f.topic != "h.registered").collect();
    res.count("handler_output_frames_checked", mine.len() as u64);
    res.count("triggers", n_trig as u64);

    // every frame of H lives in H's context, whatever the script asked for
    if let Some(f) = mine.iter().find(|f| f.context_id != ctx) {
        res.find(&["C15", "C06"], "output-landed-outside-the-handler-context", json!({"case": d, "frame": f}));
    }
    // nothing of H in any other context either (by content tag)
    if expect_ok {
        for (ti, t) in trigs.iter().enumerate() {
            let tid = t.id.to_string();
            let got: Vec<&Frame> = mine.iter().copied().filter(|f| meta_str(f, "frame_id") == Some(&tid)).collect();
            let mut want_topics: Vec<String> = p.appends.iter().map(|a| a.topic.clone()).collect();
            if expected_ret(&p, &tid).is_some() {
                want_topics.push(ret_topic.clone());
            }
            let got_topics: Vec<String> = got.iter().map(|f| f.topic.clone()).collect();
            if got_topics != want_topics {
                let sig = if got_topics.len() < want_topics.len() && mine.iter().any(|f| f.topic == "h.unregistered") {
                    "successful-call-ended-in-unregistration"
                } else if {
                    let mut a = got_topics.clone();
                    a.sort();
                    let mut b = want_topics.clone();
                    b.sort();
                    a == b
                } {
                    "outputs-in-wrong-order"
                } else {
                    "outputs-missing-or-unexpected"
                };
                let unreg = mine.iter().find(|f| f.topic == "h.unregistered").map(|f| f.meta.clone());
                res.find(&["C15"], sig, json!({"case": d, "trigger": ti, "got": got_topics, "expected": want_topics, "unregistered": unreg}));
                break;
            }
            // frames of one call are contiguous among H's frames and ordered by id
            for w in got.windows(2) {
                if w[1].id <= w[0].id {
                    res.find(&["C15"], "outputs-in-wrong-order", json!({"case": d, "trigger": ti}));
                }
            }
            for (i, a) in p.appends.iter().enumerate() {
                let f = got[i];
                let want_ttl = a.ttl.and_then(parse_ttl);
                if f.ttl != want_ttl {
                    res.find(&["C15"], "explicit-append-ttl-differs", json!({"case": d, "frame": f, "expected_ttl": a.ttl}));
                }
                // user meta preserved except for the two stamps
                let mut m = f.meta.clone().unwrap_or(json!({}));
                if let Some(o) = m.as_object_mut() {
                    o.remove("handler_id");
                    o.remove("frame_id");
                }
                let want_meta = a.meta_expect.clone().unwrap_or(json!({}));
                if m != want_meta {
                    res.find(&["C15"], "user-meta-not-preserved", json!({"case": d, "frame": f, "expected_user_meta": want_meta}));
                }
                let c = srv.content_str(f)?;
                let want_c = format!("c{}-{}", i, tid);
                if c.as_deref() != Some(want_c.as_str()) {
                    res.find(&["C15", "C10"], "explicit-append-content-missing-or-differs", json!({"case": d, "frame": f, "content": c, "expected": want_c}));
                }
            }
            if let Some(want) = expected_ret(&p, &tid) {
                let f = got[p.appends.len()];
                let want: Value = serde_json::from_str(&want.to_string().replace("__CTX__", &f.context_id.to_string())).unwrap_or(want);
                let want_ttl = p.ret_ttl.and_then(parse_ttl);
                if f.ttl != want_ttl {
                    res.find(&["C15"], "return-frame-ttl-differs", json!({"case": d, "frame": f, "expected_ttl": p.ret_ttl}));
                }
                let c = srv.content_str(f)?;
                let v: Option<Value> = c.as_deref().and_then(|s| serde_json::from_str(s).ok());
                if v.as_ref() != Some(&want) {
                    res.find(&["C15", "C10"], "return-value-content-missing-or-differs", json!({"case": d, "frame": f, "content": c, "expected": want}));
                }
            }
        }
        if mine.iter().any(|f| f.topic == "h.unregistered") && !res.findings.iter().any(|f| f.signature.contains("unregistration")) {
            res.find(&["C15", "C16"], "successful-call-ended-in-unregistration", json!({"case": d, "frame": mine.iter().find(|f| f.topic == "h.unregistered")}));
        }
    } else {
        // failure on the first trigger: none of its frames, exactly one .unregistered with the error, nothing afterwards
        let t0 = trigs[0].id.to_string();
        let unreg: Vec<&&Frame> = mine.iter().filter(|f| f.topic == "h.unregistered").collect();
        let others: Vec<&&Frame> = mine.iter().filter(|f| f.topic != "h.unregistered").collect();
        if !others.is_empty() {
            let partial = others.iter().any(|f| meta_str(f, "frame_id") == Some(&t0));
            let sig = if partial { "failed-call-emitted-frames" } else { "stopped-handler-processed-a-later-trigger" };
            res.find(if partial { &["C15"] } else { &["C15", "C16"] }, sig, json!({"case": d, "frames": others.iter().take(4).collect::<Vec<_>>()}));
        }
        match unreg.len() {
            0 => res.find(&["C15", "C16"], "failed-call-not-followed-by-unregistered", json!({"case": d, "fail_kind": p.fail_kind, "server_stderr_tail": srv.stderr().chars().rev().take(500).collect::<String>().chars().rev().collect::<String>()})),
            1 => {
                let u = unreg[0];
                if meta_str(u, "frame_id") != Some(&t0) {
                    res.find(&["C15", "C16"], "unregistered-names-the-wrong-trigger", json!({"case": d, "frame": u}));
                }
                let err = meta_str(u, "error").unwrap_or("");
                if err.is_empty() {
                    res.find(&["C15", "C16"], "unregistered-without-error", json!({"case": d, "frame": u}));
                } else if p.fail_kind == "error-make" && !err.contains("boom-on-purpose") {
                    res.find(&["C15"], "unregistered-error-is-not-the-closure-error", json!({"case": d, "frame": u}));
                }
            }
            _ => res.find(&["C15", "C16"], "more-than-one-unregistered", json!({"case": d, "count": unreg.len()})),
        }
    }
    if res.sample.is_none() {
        res.sample = Some(json!({"script": src, "frames_of_first_trigger": mine.iter().filter(|f| meta_str(f, "frame_id") == Some(&trigs[0].id.to_string())).take(6).collect::<Vec<_>>() }));
    }
    res.nontrivial = !p.appends.is_empty() || p.ret != "nothing" || p.fail_at.is_some();
    res.hash = fnv(&src.replace(&ctx.to_string(), "CTX").replace(&other.to_string(), "OTHER"));
    Ok(())
}
