//! Reference model of the store (DESIGN §2.3, Appendix A). Deterministic, independent of
//! the fjall key layout, three-valued where the properties leave freedom.

use std::collections::{BTreeMap, BTreeSet, HashMap};

use scru128::Scru128Id;
use serde_json::{json, Value};

use xs::store::{Frame, TTL, ZERO_CONTEXT};

use crate::session::frame_digest;

#[derive(Clone, Copy, PartialEq, Eq, Debug)]
pub enum P3 {
    Must,
    May,
    Gone,
}

#[derive(Clone, Debug)]
pub struct MFrame {
    pub frame: Frame,
    pub digest: u64,
    pub removed: bool,
    pub evictable: bool,
    pub may_be_collected: bool,
    pub scanned_expired: bool,
    pub gc_gone: bool,
    pub observed_gone: bool,
    pub imported: bool,
    pub era: u32,
    /// a GC drain was acknowledged after this frame was appended, in the same process
    pub drained_in_era: bool,
}

#[derive(Clone, Debug)]
pub struct Finding {
    /// properties this observation refutes
    pub props: Vec<&'static str>,
    pub signature: String,
    pub detail: Value,
}

pub fn finding(props: &[&'static str], signature: impl Into<String>, detail: Value) -> Finding {
    Finding { props: props.to_vec(), signature: signature.into(), detail }
}

pub fn ts_of(id: &Scru128Id) -> u64 {
    id.timestamp()
}

#[derive(Clone, Debug, Default)]
pub struct Model {
    pub frames: BTreeMap<u128, MFrame>,
    /// virtual clock (ms); always set in E1 sessions
    pub now: u64,
    /// (ctx, topic) -> smallest K of any head:K frame ever *appended* there
    pub head_ks: HashMap<(u128, String), u32>,
    /// ephemeral frames acked (never stored): id -> frame
    pub ephemerals: BTreeMap<u128, Frame>,
    pub era: u32,
    pub last_append_id: Option<Scru128Id>,
    /// (ctx, topic) groups whose head:K collection was pending when the process ended
    pub gc_interrupted: BTreeSet<(u128, String)>,
}

fn time_ttl_ms(f: &Frame) -> Option<u64> {
    match &f.ttl {
        Some(TTL::Time(d)) => Some(d.as_millis().min(u64::MAX as u128) as u64),
        _ => None,
    }
}

impl Model {
    pub fn expired_may(&self, f: &Frame) -> bool {
        match time_ttl_ms(f) {
            Some(n) => self.now >= ts_of(&f.id).saturating_add(n),
            None => false,
        }
    }
    pub fn expired_must(&self, f: &Frame) -> bool {
        match time_ttl_ms(f) {
            Some(n) => self.now >= ts_of(&f.id).saturating_add(n).saturating_add(1) && ts_of(&f.id).checked_add(n).is_some(),
            None => false,
        }
    }

    /// physical presence (get / head / raw keys)
    pub fn physical(&self, m: &MFrame) -> P3 {
        if m.removed || m.observed_gone || m.gc_gone {
            P3::Gone
        } else if m.evictable || m.may_be_collected || self.expired_may(&m.frame) {
            P3::May
        } else {
            P3::Must
        }
    }

    /// visibility in stream reads (read / read_sync)
    pub fn readable(&self, m: &MFrame) -> P3 {
        if self.physical(m) == P3::Gone || self.expired_must(&m.frame) {
            P3::Gone
        } else if self.expired_may(&m.frame) || m.evictable || m.may_be_collected {
            P3::May
        } else {
            P3::Must
        }
    }

    pub fn usable_contexts(&self) -> BTreeSet<u128> {
        let mut s = BTreeSet::new();
        s.insert(ZERO_CONTEXT.to_u128());
        for (id, m) in &self.frames {
            if m.frame.topic == "xs.context" && m.frame.context_id == ZERO_CONTEXT && self.physical(m) != P3::Gone {
                s.insert(*id);
            }
        }
        s
    }

    /// what the frame returned by a successful append must look like (id aside)
    pub fn expected_append(req: &Frame) -> Frame {
        let mut f = req.clone();
        if f.topic == "xs.context" {
            f.ttl = Some(TTL::Forever);
        }
        f
    }

    /// model's verdict on an append request: Ok(()) = must be accepted, Err(reason) = must be rejected
    pub fn append_allowed(&self, req: &Frame) -> Result<(), &'static str> {
        if req.topic == "xs.context" {
            if req.context_id != ZERO_CONTEXT {
                return Err("xs.context-outside-zero");
            }
        } else if !self.usable_contexts().contains(&req.context_id.to_u128()) {
            return Err("context-not-registered");
        }
        if req.topic.as_bytes().contains(&0) {
            return Err("nul-in-topic");
        }
        Ok(())
    }

    fn insert(&mut self, frame: Frame, imported: bool) {
        let key = frame.id.to_u128();
        let pending_remove = self
            .frames
            .get(&key)
            .map(|m| (m.scanned_expired && !m.gc_gone) || m.may_be_collected)
            .unwrap_or(false);
        let digest = frame_digest(&frame);
        self.frames.insert(
            key,
            MFrame {
                frame,
                digest,
                removed: false,
                evictable: false,
                may_be_collected: pending_remove,
                scanned_expired: false,
                gc_gone: false,
                observed_gone: false,
                imported,
                era: self.era,
                drained_in_era: false,
            },
        );
    }

    fn reevaluate_evictable(&mut self, ctx: u128, topic: &str) {
        let Some(k) = self.head_ks.get(&(ctx, topic.to_string())).copied() else {
            return;
        };
        let ids: Vec<u128> = self
            .frames
            .iter()
            .filter(|(_, m)| !m.removed && m.frame.context_id.to_u128() == ctx && m.frame.topic == topic)
            .map(|(id, _)| *id)
            .collect();
        if ids.len() > k as usize {
            for id in &ids[..ids.len() - k as usize] {
                self.frames.get_mut(id).unwrap().evictable = true;
            }
        }
    }

    /// record an acknowledged append
    pub fn on_append(&mut self, stored: &Frame) {
        self.last_append_id = Some(stored.id);
        if stored.ttl == Some(TTL::Ephemeral) {
            self.ephemerals.insert(stored.id.to_u128(), stored.clone());
            return;
        }
        let ctx = stored.context_id.to_u128();
        if let Some(TTL::Head(k)) = stored.ttl {
            let e = self.head_ks.entry((ctx, stored.topic.clone())).or_insert(k);
            *e = (*e).min(k);
        }
        self.insert(stored.clone(), false);
        self.reevaluate_evictable(ctx, &stored.topic);
    }

    pub fn on_import(&mut self, frame: &Frame) {
        self.insert(frame.clone(), true);
        self.reevaluate_evictable(frame.context_id.to_u128(), &frame.topic);
    }

    pub fn on_remove(&mut self, id: &Scru128Id) {
        if let Some(m) = self.frames.get_mut(&id.to_u128()) {
            m.removed = true;
        }
    }

    pub fn on_drain(&mut self) {
        let era = self.era;
        for m in self.frames.values_mut() {
            if m.scanned_expired {
                m.gc_gone = true;
            }
            if m.era == era {
                m.drained_in_era = true;
            }
        }
    }

    pub fn on_reopen(&mut self) {
        let era = self.era;
        for m in self.frames.values() {
            if m.era == era && !m.drained_in_era && matches!(m.frame.ttl, Some(TTL::Head(_))) {
                self.gc_interrupted.insert((m.frame.context_id.to_u128(), m.frame.topic.clone()));
            }
        }
        self.era += 1;
    }

    pub fn in_scope<'a>(&'a self, ctx: Option<u128>, last_id: Option<u128>) -> impl Iterator<Item = &'a MFrame> + 'a {
        self.frames
            .iter()
            .filter(move |(id, m)| {
                last_id.map(|l| **id > l).unwrap_or(true)
                    && ctx.map(|c| m.frame.context_id.to_u128() == c).unwrap_or(true)
            })
            .map(|(_, m)| m)
    }

    /// Compare a stream read (observed `[id, digest]` list) with the model (A.2), then record what
    /// the read certainly scanned (A.3).
    pub fn check_read(
        &mut self,
        path: &str,
        ctx: Option<u128>,
        last_id: Option<u128>,
        limit: Option<usize>,
        observed: &[(u128, u64)],
    ) -> Vec<Finding> {
        let mut out = vec![];
        let desc = || json!({"path": path, "ctx": ctx.map(id_str), "last_id": last_id.map(id_str), "limit": limit, "observed": observed.iter().map(|(i, _)| id_str(*i)).collect::<Vec<_>>(), "now": self.now});
        // order / duplicates
        for w in observed.windows(2) {
            if w[1].0 <= w[0].0 {
                out.push(finding(&["C01"], format!("{}/not-strictly-increasing", path), json!({"read": desc(), "pair": [id_str(w[0].0), id_str(w[1].0)]})));
            }
        }
        if let Some(l) = limit {
            if observed.len() > l {
                out.push(finding(&["C01"], format!("{}/more-than-limit", path), desc()));
            }
        }
        let cands: Vec<(u128, P3, u64, u128, bool)> = self
            .in_scope(ctx, last_id)
            .map(|m| (m.frame.id.to_u128(), self.readable(m), m.digest, m.frame.context_id.to_u128(), self.expired_must(&m.frame)))
            .collect();
        let cut = limit.map(|l| observed.len() >= l).unwrap_or(false);
        let mut j = 0usize;
        for (id, p3, digest, _c, _) in &cands {
            if j < observed.len() && observed[j].0 == *id {
                if *p3 == P3::Gone {
                    let m = &self.frames[id];
                    let why = gone_reason(self, m);
                    out.push(finding(
                        gone_props(&why),
                        format!("{}/returned-frame-that-must-be-gone/{}", path, why),
                        json!({"read": desc(), "frame": m.frame}),
                    ));
                } else if observed[j].1 != *digest {
                    out.push(finding(&["C01", "C12"], format!("{}/frame-content-differs", path), json!({"read": desc(), "expected": self.frames[id].frame})));
                }
                j += 1;
            } else if *p3 == P3::Must {
                if j >= observed.len() && cut {
                    break; // cut by limit
                }
                // a must frame was skipped (observed[j] is beyond it, or the list ended early)
                out.push(finding(
                    &["C01", "C08"],
                    format!("{}/missing-frame", path),
                    json!({"read": desc(), "missing": self.frames[id].frame, "flags": flags_of(&self.frames[id])}),
                ));
            }
        }
        if j < observed.len() {
            // frames the model does not place in this scope/range
            for (id, _) in &observed[j..] {
                let (props, sig): (&[&'static str], String) = match self.frames.get(id) {
                    Some(m) if ctx.map(|c| m.frame.context_id.to_u128() != c).unwrap_or(false) => {
                        (&["C01", "C06"], format!("{}/frame-of-foreign-context", path))
                    }
                    Some(_) if last_id.map(|l| *id <= l).unwrap_or(false) => (&["C01"], format!("{}/frame-not-after-last-id", path)),
                    Some(_) => (&["C01"], format!("{}/frame-out-of-order-or-duplicated", path)),
                    None if self.ephemerals.contains_key(id) => (&["C01", "C09"], format!("{}/ephemeral-frame-was-stored", path)),
                    None => (&["C01", "C07"], format!("{}/unknown-frame", path)),
                };
                if !out.iter().any(|f| f.signature == sig) {
                    out.push(finding(props, sig, json!({"read": desc(), "frame_id": id_str(*id)})));
                }
            }
        }
        // scanned bookkeeping (A.3)
        let last_obs = observed.last().map(|x| x.0);
        let under_limit = limit.map(|l| observed.len() < l).unwrap_or(true);
        for (id, _p3, _d, _c, exp_must) in &cands {
            let m = self.frames.get(id).unwrap();
            if self.expired_may(&m.frame) {
                let certainly = under_limit || last_obs.map(|l| *id < l).unwrap_or(false);
                let exp_must = *exp_must;
                let m = self.frames.get_mut(id).unwrap();
                m.may_be_collected = true;
                if certainly && exp_must {
                    m.scanned_expired = true;
                }
            }
        }
        out
    }

    pub fn check_get(&self, id: u128, observed_digest: Option<u64>, quiescent: bool) -> (Vec<Finding>, bool) {
        let mut out = vec![];
        let mut newly_gone = false;
        match self.frames.get(&id) {
            None => {
                if observed_digest.is_some() {
                    let props: &[&'static str] = if self.ephemerals.contains_key(&id) { &["C01", "C09"] } else { &["C01", "C07"] };
                    out.push(finding(props, "get/returned-frame-never-stored", json!({"id": id_str(id)})));
                }
            }
            Some(m) => match (self.physical(m), observed_digest) {
                (P3::Must, None) => out.push(finding(&["C01", "C08"], "get/missing-frame", json!({"frame": m.frame, "flags": flags_of(m), "now": self.now}))),
                (P3::Gone, Some(_)) => {
                    let why = gone_reason(self, m);
                    out.push(finding(gone_props(&why), format!("get/returned-frame-that-must-be-gone/{}", why), json!({"frame": m.frame, "now": self.now})))
                }
                (_, Some(d)) if d != m.digest => out.push(finding(&["C01", "C12"], "get/frame-content-differs", json!({"expected": m.frame}))),
                (P3::May, None) if quiescent => newly_gone = true,
                _ => {}
            },
        }
        (out, newly_gone)
    }

    /// head(topic, ctx) against the model (three-valued)
    pub fn check_head(&self, topic: &str, ctx: u128, observed: Option<(u128, String, u128)>) -> Vec<Finding> {
        let mut out = vec![];
        let cands: Vec<&MFrame> = self
            .frames
            .values()
            .filter(|m| m.frame.context_id.to_u128() == ctx && m.frame.topic == topic)
            .collect();
        let newest_must = cands.iter().rev().find(|m| self.physical(m) == P3::Must);
        let d = || json!({"topic": topic, "ctx": id_str(ctx), "observed": observed.as_ref().map(|(i, t, c)| json!({"id": id_str(*i), "topic": t, "ctx": id_str(*c)}))});
        match &observed {
            None => {
                if let Some(m) = newest_must {
                    out.push(finding(&["C05", "C08"], "head/none-but-frame-exists", json!({"head": d(), "expected": m.frame})));
                }
            }
            Some((id, t, c)) => {
                if t != topic || *c != ctx {
                    out.push(finding(&["C05", "C06"], "head/returned-frame-of-other-topic-or-context", d()));
                } else {
                    match self.frames.get(id) {
                        None => out.push(finding(&["C05"], "head/returned-unknown-frame", d())),
                        Some(m) => {
                            if self.physical(m) == P3::Gone {
                                let why = gone_reason(self, m);
                                out.push(finding(gone_props(&why), format!("head/returned-frame-that-must-be-gone/{}", why), d()));
                            }
                            if let Some(nm) = newest_must {
                                if nm.frame.id.to_u128() > *id {
                                    out.push(finding(&["C05"], "head/not-the-newest", json!({"head": d(), "newer": nm.frame})));
                                }
                            }
                        }
                    }
                }
            }
        }
        out
    }
}

fn gone_reason(model: &Model, m: &MFrame) -> String {
    if m.removed {
        "removed".into()
    } else if m.gc_gone {
        "expired-scanned-drained".into()
    } else if m.observed_gone {
        "was-observed-gone".into()
    } else if model.expired_must(&m.frame) {
        "expired".into()
    } else {
        "other".into()
    }
}

fn gone_props(why: &str) -> &'static [&'static str] {
    match why {
        "removed" => &["C01", "C05"],
        "expired" | "expired-scanned-drained" => &["C01", "C09"],
        _ => &["C01", "C05"],
    }
}

pub fn flags_of(m: &MFrame) -> Value {
    json!({"removed": m.removed, "evictable": m.evictable, "may_be_collected": m.may_be_collected, "scanned_expired": m.scanned_expired, "gc_gone": m.gc_gone, "observed_gone": m.observed_gone, "imported": m.imported, "era": m.era})
}

pub fn id_str(id: u128) -> String {
    Scru128Id::from(id).to_string()
}

pub fn parse_pairs(v: &Value) -> Vec<(u128, u64)> {
    v.as_array()
        .map(|a| {
            a.iter()
                .filter_map(|p| {
                    let id: Scru128Id = p[0].as_str()?.parse().ok()?;
                    let d: u64 = p[1].as_str()?.parse().ok()?;
                    Some((id.to_u128(), d))
                })
                .collect()
        })
        .unwrap_or_default()
}

/// expected index keys, written from the documented layout (not imported from the crate)
pub fn expected_topic_key(f_ctx: u128, topic: &str, id: u128) -> Vec<u8> {
    let mut v = Vec::new();
    v.extend_from_slice(&f_ctx.to_be_bytes());
    v.extend_from_slice(topic.as_bytes());
    v.push(0);
    v.extend_from_slice(&id.to_be_bytes());
    v
}
pub fn expected_context_key(f_ctx: u128, id: u128) -> Vec<u8> {
    let mut v = Vec::new();
    v.extend_from_slice(&f_ctx.to_be_bytes());
    v.extend_from_slice(&id.to_be_bytes());
    v
}
