//! C14 — a handler sees each frame once, in order, never its own output (trace spec over the
//! global frame log; instrumented nushell handler).

use std::time::Duration;

use scru128::Scru128Id;
use serde_json::{json, Value};

use xs::store::{Frame, TTL, ZERO_CONTEXT};

use crate::e5::*;
use crate::report::fnv;
use crate::rng::Rng;

fn handler_script(resume: &str, sleep_ms: u64, pulse: Option<u64>, cfg: &str) -> String {
    let sleep = if sleep_ms > 0 { format!("sleep {}ms", sleep_ms) } else { String::new() };
    let pulse = pulse.map(|p| format!("pulse: {}", p)).unwrap_or_default();
    format!(
        r#"$env.CFG = "{cfg}"
$env.n = 0
{{
  resume_from: "{resume}"
  {pulse}
  run: {{|frame|
    if $frame.topic in ["xs.threshold" "xs.pulse"] {{ return }}
    $env.n = $env.n + 1
    {sleep}
    if $frame.topic == "relay-me" {{ "relayed" | .append relayed --meta $frame.meta }}
    {{seen: $frame.id, n: $env.n, cfg: $env.CFG, topic: $frame.topic}}
  }}
}}"#
    )
}

/// reacts only to topic "t2": its outputs are ordinary frames for the handler under test
const H2_SCRIPT: &str = r#"{
  run: {|frame|
    if $frame.topic != "t2" { return }
    {h2saw: $frame.id}
  }
}"#;

pub fn run_case(seed: u64) -> CaseResult {
    let mut res = CaseResult::default();
    let mut srv = match Srv::start("c14") {
        Ok(s) => s,
        Err(e) => {
            res.inconclusive = Some(format!("start: {}", e));
            return res;
        }
    };
    let r = case(&mut srv, seed, &mut res);
    if let Err(e) = r {
        let stderr = srv.stderr();
        absorb(&mut res, &["C14"], e, stderr);
    }
    if !srv.panics.is_empty() {
        res.find(&["C14"], "panic-in-server", json!({"panics": srv.panics}));
    }
    srv.finish();
    res
}

fn case(srv: &mut Srv, seed: u64, res: &mut CaseResult) -> R<()> {
    let mut rng = Rng::new(seed);
    let ctx_a = srv.new_context()?;
    let ctx_b = srv.new_context()?;
    let in_zero = rng.chance(200);
    let ctx = if in_zero { ZERO_CONTEXT } else { ctx_a };
    let name = "h";
    let resume_kind = ["tail", "head", "after"][rng.below(3)];
    let sleep_ms = [0u64, 0, 1, 2][rng.below(4)];
    let pulse = if rng.chance(250) { Some(20u64) } else { None };
    let with_old_instance = rng.chance(500);
    let with_h2 = rng.chance(500);
    let burst_n = [10usize, 50, 120, 300][rng.below(4)];
    let writers = 1 + rng.below(6);
    res.seen("shapes", format!("resume={}/sleep={}/pulse={}/old={}/h2={}/burst={}x{}/zero={}", resume_kind, sleep_ms, pulse.is_some(), with_old_instance, with_h2, writers, burst_n / writers.max(1), in_zero));

    // pre-existing history in the handler's context (and noise elsewhere)
    let mut pre: Vec<Frame> = vec![];
    // some histories contain time:N frames that have expired (virtual clock, advanced before the handler is
    // registered) but were never collected: replay skips them and goes on with what follows
    let with_expired = rng.chance(350);
    let mut expired_ids: Vec<String> = vec![];
    // mostly short histories; some longer than the 100-slot delivery channel, so that the replay is still going on
    // (the handler is slower than the store) when the bursts below are appended
    let pre_n = match rng.below(20) {
        0..=11 => rng.below(25),
        12..=16 => 110 + rng.below(80),
        _ => 300 + rng.below(200),
    };
    res.seen("history_sizes", if pre_n < 25 { "<25" } else if pre_n < 200 { "110-190" } else { "300-500" });
    for i in 0..pre_n {
        if with_expired && i % 5 == 1 {
            let f = srv.must_append("pre", ctx, None, Some(json!({"expired": i})), Some(TTL::Time(Duration::from_millis(5))))?;
            expired_ids.push(f.id.to_string());
        }
        // (no evicting TTLs here: the expected list is built from what the monitor saw live)
        let ttl = if i % 7 == 3 { Some(TTL::Head(u32::MAX)) } else { None };
        pre.push(srv.must_append("pre", ctx, None, Some(json!({"i": i})), ttl)?);
        if i % 3 == 0 {
            srv.must_append("pre", ctx_b, None, None, None)?;
        }
    }
    if with_old_instance {
        // an earlier instance of the same name: its registration traffic and outputs are history
        let old = srv.must_append(&format!("{}.register", name), ctx, Some(handler_script("tail", 0, None, "old").as_bytes()), None, None)?;
        let ok = srv.wait(Duration::from_secs(20), |log| log.iter().any(|f| f.topic == "h.registered" && meta_str(f, "handler_id") == Some(&old.id.to_string())))?;
        if !ok {
            res.inconclusive = Some("old instance never announced".into());
            return Ok(());
        }
        for i in 0..3 {
            srv.must_append("pre", ctx, None, Some(json!({"old": i})), None)?;
        }
        srv.wait(Duration::from_secs(20), |log| log.iter().filter(|f| f.topic == "h.out").count() >= 3)?;
        srv.must_append(&format!("{}.unregister", name), ctx, None, None, None)?;
        let ok = srv.wait(Duration::from_secs(20), |log| log.iter().any(|f| f.topic == "h.unregistered"))?;
        if !ok {
            res.inconclusive = Some("old instance never unregistered".into());
            return Ok(());
        }
    }
    if with_expired && !expired_ids.is_empty() {
        let now = std::time::SystemTime::now().duration_since(std::time::UNIX_EPOCH).unwrap().as_millis() as u64;
        srv.call(json!({"op": "clock", "ms": now + 60_000}))?;
        res.count("histories_with_expired_uncollected_frames", 1);
    }
    let after_id: Option<Scru128Id> = if resume_kind == "after" && !pre.is_empty() { Some(pre[rng.below(pre.len())].id) } else { None };
    if let Some(a) = after_id {
        if rng.chance(350) {
            // the cursor frame itself is removed before the handler starts: the cursor is still a position
            srv.call(json!({"op": "remove", "id": a.to_string()}))?;
            res.count("resume_after_a_removed_frame", 1);
        }
    }
    let resume_str = match (resume_kind, after_id) {
        ("after", Some(id)) => id.to_string(),
        ("after", None) => "head".to_string(),
        (k, _) => k.to_string(),
    };
    let resume_kind = if resume_kind == "after" && after_id.is_none() { "head" } else { resume_kind };
    if with_h2 {
        srv.must_append("h2.register", ctx, Some(H2_SCRIPT.as_bytes()), None, None)?;
        srv.wait(Duration::from_secs(20), |log| log.iter().any(|f| f.topic == "h2.registered"))?;
    }
    let cfg = format!("cfg{}", seed % 1000);
    let reg = srv.must_append(&format!("{}.register", name), ctx, Some(handler_script(&resume_str, sleep_ms, pulse, &cfg).as_bytes()), None, None)?;
    let hid = reg.id.to_string();
    let ok = srv.wait(Duration::from_secs(20), |log| log.iter().any(|f| f.topic == "h.registered" && meta_str(f, "handler_id") == Some(&hid)))?;
    if !ok {
        srv.pull()?;
        if let Some(u) = srv.era_log().iter().find(|f| f.topic == "h.unregistered" && meta_str(f, "handler_id") == Some(&hid)) {
            res.inconclusive = Some(format!("handler script rejected: {:?}", u.meta));
        } else {
            res.inconclusive = Some("handler never announced".into());
        }
        return Ok(());
    }
    // traffic: bursts from several writers, foreign-context noise, frames for h2, ephemeral frames
    let per = (burst_n / writers.max(1)).max(1);
    srv.call(json!({"op": "burst", "topic": "b", "ctx": ctx.to_string(), "n": per, "writers": writers, "tag": 1}))?;
    srv.call(json!({"op": "burst", "topic": "b", "ctx": ctx_b.to_string(), "n": 5, "writers": 2, "tag": 2}))?;
    // frames whose meta the handler copies onto an explicit append: the meta already names another handler
    for i in 0..3 {
        let foreign = if with_old_instance { pre.first().map(|f| f.id.to_string()).unwrap_or_else(|| "03gy4klv2h02u3x987n90p9hd".into()) } else { "03gy4klv2h02u3x987n90p9hd".to_string() };
        srv.must_append("relay-me", ctx, None, Some(json!({"handler_id": foreign, "i": i})), None)?;
    }
    for i in 0..6 {
        srv.must_append("t2", ctx, None, Some(json!({"i": i})), None)?;
        srv.must_append("e", ctx, None, Some(json!({"eph": i})), Some(TTL::Ephemeral))?;
        srv.must_append("other", if ctx == ZERO_CONTEXT { ctx_b } else { ZERO_CONTEXT }, None, None, None)?;
    }
    // the end marker must be a frame of the live phase: for a replaying handler, wait until it has worked through
    // the history it was given (its output for the newest unexpired history frame), then append the marker
    if resume_kind != "tail" {
        if let Some(last_hist) = pre.iter().rev().find(|f| !expired_ids.contains(&f.id.to_string()) && after_id.map(|a| f.id > a).unwrap_or(true)) {
            let lid = last_hist.id.to_string();
            let replayed = srv.wait(Duration::from_secs(60), |log| log.iter().any(|f| f.topic == "h.out" && meta_str(f, "handler_id") == Some(&hid) && meta_str(f, "frame_id") == Some(&lid)))?;
            if !replayed {
                let stopped = srv.era_log().iter().any(|f| f.topic == "h.unregistered" && meta_str(f, "handler_id") == Some(&hid));
                if !stopped {
                    res.inconclusive = Some("the handler did not finish replaying its history within 60 s".into());
                    return Ok(());
                }
            }
        }
    }
    let fin = srv.must_append("fin", ctx, None, None, None)?;
    let fin_id = fin.id.to_string();
    let reached = srv.wait(Duration::from_secs(60), |log| log.iter().any(|f| f.topic == "h.out" && meta_str(f, "handler_id") == Some(&hid) && meta_str(f, "frame_id") == Some(&fin_id)))?;
    // stop it and see that nothing is processed afterwards
    let unreg = srv.must_append(&format!("{}.unregister", name), ctx, None, None, None)?;
    srv.wait(Duration::from_secs(20), |log| log.iter().any(|f| f.topic == "h.unregistered" && meta_str(f, "handler_id") == Some(&hid)))?;
    let late = srv.must_append("late", ctx, None, None, None)?;
    srv.settle(Duration::from_millis(150), Duration::from_secs(5))?;

    // ---- offline check over the global log --------------------------------------------------
    let log: Vec<Frame> = srv.era_log().iter().filter(|f| !is_synth(f)).cloned().collect();
    let h = reg.id;
    let registered = log.iter().find(|f| f.topic == "h.registered" && meta_str(f, "handler_id") == Some(&hid)).map(|f| f.id);
    let in_ctx: Vec<&Frame> = log.iter().filter(|f| f.context_id == ctx).collect();
    let mut must: Vec<&Frame> = vec![];
    let mut may: Vec<&Frame> = vec![];
    for f in &in_ctx {
        // skip rules (frames on topic "relayed" are this handler's explicit appends by construction)
        if meta_str(f, "handler_id") == Some(&hid) || f.topic == "relayed" {
            continue;
        }
        if (f.topic == "h.register" || f.topic == "h.unregister") && f.id <= h {
            continue;
        }
        if (f.topic == "h.register" || f.topic == "h.unregister") && f.id > h {
            break; // the instance stops here
        }
        match resume_kind {
            "head" => must.push(f),
            "after" => {
                if f.id > after_id.unwrap() {
                    must.push(f)
                }
            }
            _ => {
                if Some(f.id) > registered {
                    must.push(f)
                } else if f.id > h {
                    may.push(f)
                }
            }
        }
    }
    // expired history is neither required nor forbidden here (C09 decides that): out of both lists
    must.retain(|f| !expired_ids.contains(&f.id.to_string()));
    may.retain(|f| !expired_ids.contains(&f.id.to_string()));
    let outs: Vec<&Frame> = log.iter().filter(|f| f.topic == "h.out" && meta_str(f, "handler_id") == Some(&hid) && !meta_str(f, "frame_id").map(|i| expired_ids.iter().any(|e| e == i)).unwrap_or(false)).collect();
    res.count("handler_invocations_checked", outs.len() as u64);
    res.count("frames_in_log", log.len() as u64);
    let seen: Vec<String> = outs.iter().map(|o| meta_str(o, "frame_id").unwrap_or("").to_string()).collect();
    let must_ids: Vec<String> = must.iter().map(|f| f.id.to_string()).collect();
    let may_ids: Vec<String> = may.iter().map(|f| f.id.to_string()).collect();
    let d = json!({"resume": resume_str, "handler_id": hid, "context": ctx.to_string(), "expected": must_ids.len(), "optional_before_announce": may_ids.len(), "outputs": seen.len(), "reached_sentinel": reached});
    // the only frame that may stop this instance is the explicit unregister sent above
    for u in log.iter().filter(|f| f.topic == "h.unregistered" && meta_str(f, "handler_id") == Some(&hid)) {
        if meta_str(u, "frame_id") != Some(&unreg.id.to_string()) {
            let cause = meta_str(u, "frame_id").and_then(|i| log.iter().find(|f| f.id.to_string() == i)).map(|f| f.topic.clone());
            res.find(&["C14", "C16"], "handler/stopped-by-a-frame-that-must-not-stop-it", json!({"case": d, "unregistered": u, "stopped_by_topic": cause, "own_register_id": hid}));
        }
    }
    // outputs land in the handler's context
    if let Some(o) = outs.iter().find(|o| o.context_id != ctx) {
        res.find(&["C14", "C06", "C15"], "handler-output-in-foreign-context", json!({"case": d, "frame": o}));
    }
    // split the seen list: optional prefix drawn from `may` (a suffix of it), then exactly `must`
    let k = seen.iter().take_while(|s| may_ids.contains(s)).count();
    let (pre_seen, main_seen) = seen.split_at(k);
    if !pre_seen.is_empty() && pre_seen != &may_ids[may_ids.len() - pre_seen.len()..] {
        res.find(&["C14"], "handler/frames-before-announce-processed-with-gaps", json!({"case": d}));
    }
    if main_seen != &must_ids[..] {
        // classify
        let dup = {
            let mut s = main_seen.to_vec();
            s.sort();
            s.windows(2).any(|w| w[0] == w[1])
        };
        let own = main_seen.iter().any(|s| log.iter().any(|f| &f.id.to_string() == s && (meta_str(f, "handler_id") == Some(&hid) || f.topic == "relayed")));
        let foreign = main_seen.iter().any(|s| log.iter().any(|f| &f.id.to_string() == s && f.context_id != ctx));
        let oldreg = main_seen.iter().any(|s| log.iter().any(|f| &f.id.to_string() == s && (f.topic == "h.register" || f.topic == "h.unregister") && f.id <= h));
        let after_stop = main_seen.iter().any(|s| s == &late.id.to_string());
        let sig = if own {
            "handler/invoked-for-its-own-output"
        } else if foreign {
            "handler/invoked-for-frame-of-another-context"
        } else if oldreg {
            "handler/invoked-for-registration-traffic-that-preceded-it"
        } else if after_stop {
            "handler/invoked-after-it-was-unregistered"
        } else if dup {
            "handler/frame-processed-twice"
        } else if main_seen.len() < must_ids.len() && main_seen == &must_ids[..main_seen.len()] {
            if reached { "handler/frames-missing" } else { "handler/stopped-processing-early" }
        } else {
            let mut sorted = main_seen.to_vec();
            sorted.sort();
            let mut m2 = must_ids.clone();
            m2.sort();
            if sorted == m2 { "handler/frames-processed-out-of-order" } else { "handler/frames-missing-or-unexpected" }
        };
        if sig == "handler/stopped-processing-early" {
            // bounded-progress clause: decided by the watchdog only -> inconclusive unless the handler died
            if let Some(u) = log.iter().find(|f| f.topic == "h.unregistered" && meta_str(f, "handler_id") == Some(&hid) && meta_str(f, "error").is_some()) {
                res.find(&["C14"], "handler/unregistered-itself-with-error", json!({"case": d, "frame": u}));
            } else {
                res.inconclusive = Some(format!("sentinel not processed within 60 s: {}", d));
            }
        } else {
            let first_diff = main_seen.iter().zip(must_ids.iter()).position(|(a, b)| a != b).unwrap_or(main_seen.len().min(must_ids.len()));
            res.find(
                &["C14"],
                sig,
                json!({"case": d, "first_difference_at": first_diff, "got": main_seen.iter().skip(first_diff.saturating_sub(1)).take(4).collect::<Vec<_>>(), "expected": must_ids.iter().skip(first_diff.saturating_sub(1)).take(4).collect::<Vec<_>>(),
                       "expected_topics": must.iter().skip(first_diff.saturating_sub(1)).take(4).map(|f| f.topic.clone()).collect::<Vec<_>>()}),
            );
        }
    }
    // content: seen == frame_id stamp, n counts 1,2,3.. without reset, cfg env visible
    let mut prev_n = 0i64;
    for o in &outs {
        let c = srv.content_str(o)?;
        let v: Value = c.as_deref().and_then(|s| serde_json::from_str(s).ok()).unwrap_or(Value::Null);
        if v["seen"].as_str() != meta_str(o, "frame_id") {
            res.find(&["C14", "C15"], "handler/frame_id-stamp-differs-from-the-frame-the-closure-saw", json!({"case": d, "out": o, "content": v}));
        }
        let n = v["n"].as_i64().unwrap_or(-1);
        if n != prev_n + 1 {
            res.find(&["C14"], "handler/environment-not-carried-between-invocations", json!({"case": d, "n": n, "previous": prev_n}));
            break;
        }
        prev_n = n;
        if v["cfg"].as_str() != Some(cfg.as_str()) {
            res.find(&["C14"], "handler/config-script-environment-not-visible", json!({"case": d, "cfg": v["cfg"]}));
            break;
        }
    }
    if res.sample.is_none() {
        res.sample = Some(json!({"case": d, "script": handler_script(&resume_str, sleep_ms, pulse, &cfg), "first_outputs": outs.iter().take(3).collect::<Vec<_>>()}));
    }
    res.nontrivial = outs.len() >= 10 && reached;
    res.hash = fnv(&format!("{}{}{}{}{}{}{}", resume_kind, sleep_ms, pulse.is_some(), with_old_instance, with_h2, burst_n, writers));
    Ok(())
}
