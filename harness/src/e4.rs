//! E4 — HTTP differential tester (C13; feeds C06, C10, C20): generated valid and malformed
//! requests over a raw client against the real `api::serve`, compared with the reference
//! model of Appendix B after every request; store state observed through the session channel.

use std::path::PathBuf;
use std::time::Duration;

use base64::Engine as _;
use scru128::Scru128Id;
use serde_json::{json, Value};

use xs::store::{Frame, TTL, ZERO_CONTEXT};

use crate::e1::{profile, HistoryResult, Runner};
use crate::http::{self, Conn, HttpErr, Req, Resp};
use crate::model::*;
use crate::rng::Rng;
use crate::session::{frame_digest, rm_dir, SessionError};

#[derive(Clone, Copy, PartialEq, Debug)]
pub enum Class {
    Ok2xx,
    /// any 4xx
    Client4xx,
    /// exactly 404
    NotFound,
    /// 2xx or 4xx (e.g. size limits may or may not apply); effect applies iff 2xx
    OkOr4xx,
    /// nothing is required of the answer (client aborted, broken HTTP); server must stay alive
    Free,
}

pub struct H {
    pub r: Runner,
    pub sock: PathBuf,
    pub requests: u64,
}

type R<T> = Result<T, SessionError>;

fn b64(s: &[u8]) -> String {
    base64::engine::general_purpose::STANDARD.encode(s)
}

const T: Duration = Duration::from_secs(20);

impl H {
    pub fn new(seed: u64) -> R<H> {
        let mut p = profile("c05");
        p.name = "e4";
        let r = Runner::new_opt(p, seed, true)?;
        let sock = r.dir.join("sock");
        Ok(H { r, sock, requests: 0 })
    }

    fn rng(&mut self) -> &mut Rng {
        &mut self.r.rng
    }

    fn find(&mut self, props: &[&'static str], sig: String, detail: Value) {
        let step = self.r.step;
        self.r.res.findings.push(finding(props, sig, json!({"step": step, "what": detail})));
    }

    /// send one request, classify the answer, check aliveness; returns the response if complete
    pub fn exchange(&mut self, req: &Req, class: Class, route: &'static str, cause: &str, keepalive_probe: bool) -> R<Option<Resp>> {
        self.requests += 1;
        self.r.step += 1;
        *self.r.res.counters.entry("http.requests".into()).or_insert(0) += 1;
        self.r.res.sets.entry("request_classes".into()).or_default().insert(format!("{}/{}/{:?}", route, cause, class));
        let desc = json!({"method": req.method, "target": req.target, "route": route, "cause": cause, "headers": req.headers.iter().map(|(k, v)| format!("{}: {}", k, String::from_utf8_lossy(&v[..v.len().min(80)]))).collect::<Vec<_>>(), "body_len": req.body.len(), "chunked": req.chunked});
        if self.r.res.trace.len() < 400 {
            self.r.res.trace.push(json!({"http": format!("{} {} [{}:{}]", req.method, req.target.chars().take(120).collect::<String>(), route, cause)}));
        }
        let mut conn = match Conn::open(&self.sock) {
            Ok(c) => c,
            Err(e) => {
                self.find(&["C13"], format!("server-not-accepting-connections/{}", route), json!({"request": desc, "error": e.to_string()}));
                return Ok(None);
            }
        };
        let resp = conn.roundtrip(&req.bytes(), T);
        let out = match resp {
            Ok(resp) => {
                let sc = resp.status / 100;
                let ok = match class {
                    Class::Ok2xx => sc == 2,
                    Class::Client4xx => sc == 4,
                    Class::NotFound => resp.status == 404,
                    Class::OkOr4xx => sc == 2 || sc == 4,
                    Class::Free => true,
                };
                if sc == 5 && class != Class::Free {
                    self.find(
                        &["C13"],
                        format!("status-5xx/{}/{}", route, cause),
                        json!({"request": desc, "status": resp.status, "body": String::from_utf8_lossy(&resp.body[..resp.body.len().min(300)])}),
                    );
                } else if !ok {
                    self.find(
                        &["C13"],
                        format!("status-mismatch/{}/{}/expected={:?}/got={}", route, cause, class, resp.status),
                        json!({"request": desc, "status": resp.status, "body": String::from_utf8_lossy(&resp.body[..resp.body.len().min(300)])}),
                    );
                }
                if !resp.complete && class != Class::Free {
                    self.find(&["C13"], format!("truncated-response/{}/{}", route, cause), json!({"request": desc, "status": resp.status}));
                }
                // (iv) the same connection, if the server kept it open, serves the next request
                if keepalive_probe && resp.complete && !resp.headers.iter().any(|(k, v)| k == "connection" && v.eq_ignore_ascii_case("close")) {
                    match conn.roundtrip(&Req::new("GET", "/version").bytes(), T) {
                        Ok(v) if v.status == 200 => {
                            *self.r.res.counters.entry("http.keepalive_probes".into()).or_insert(0) += 1;
                        }
                        Ok(v) => self.find(&["C13"], format!("next-request-on-same-connection-failed/{}", route), json!({"request": desc, "status": v.status})),
                        Err(HttpErr::Dropped(_)) if sc == 4 => {} // hyper may close after an error response
                        Err(e) => self.find(&["C13"], format!("next-request-on-same-connection-failed/{}", route), json!({"request": desc, "error": e.to_string()})),
                    }
                }
                Some(resp)
            }
            Err(HttpErr::Dropped(m)) => {
                if class != Class::Free {
                    self.find(&["C13"], format!("dropped-connection/{}/{}", route, cause), json!({"request": desc, "detail": m, "server_stderr": self.r.sess.as_ref().map(|s| s.stderr().chars().rev().take(400).collect::<String>().chars().rev().collect::<String>())}));
                }
                None
            }
            Err(HttpErr::Timeout(m)) => {
                if class != Class::Free {
                    self.r.res.inconclusive = Some(format!("no response within {:?} for {} ({})", T, desc, m));
                }
                None
            }
            Err(HttpErr::Io(m)) => {
                if class != Class::Free {
                    self.find(&["C13"], format!("dropped-connection/{}/{}", route, cause), json!({"request": desc, "detail": m}));
                }
                None
            }
        };
        // the server answers the next request on a fresh connection
        match http::once(&self.sock, &Req::new("GET", "/version"), T) {
            Ok(v) if v.status == 200 && serde_json::from_slice::<Value>(&v.body).map(|j| j.get("version").is_some()).unwrap_or(false) => {}
            Ok(v) => self.find(&["C13"], format!("server-unhealthy-after/{}/{}", route, cause), json!({"request": desc, "version_status": v.status})),
            Err(e) => self.find(&["C13"], format!("server-unhealthy-after/{}/{}", route, cause), json!({"request": desc, "error": e.to_string()})),
        }
        Ok(out)
    }

    /// (iii) store state equals the model
    fn state_check(&mut self) -> R<()> {
        let v = self.r.call(json!({"op": "read_sync", "digest": true}))?;
        let obs = parse_pairs(&v["frames"]);
        let mut fs = self.r.model.check_read("read_sync", None, None, None, &obs);
        for f in fs.iter_mut() {
            if !f.props.contains(&"C13") {
                f.props.push("C13");
            }
            f.signature = format!("store-differs-from-model-after-request/{}", f.signature);
        }
        let step = self.r.step;
        for mut f in fs {
            f.detail = json!({"step": step, "what": f.detail, "last_requests": self.r.res.trace.iter().rev().take(3).collect::<Vec<_>>()});
            self.r.res.findings.push(f);
        }
        Ok(())
    }

    // ----- request kinds ---------------------------------------------------------------

    fn topic_and_path(&mut self) -> (String, String) {
        let pool: &[(&str, &str)] = &[
            ("a", "/a"),
            ("ab", "/ab"),
            ("a.b", "/a.b"),
            ("", "/"),
            ("x%20y", "/x%20y"),
            ("cas/x", "/cas/x"),
            ("head/x", "/head/x"),
            ("import/x", "/import/x"),
            ("t", "//t"),
            ("version", "/version"),
            ("a:b", "/a:b"),
            ("~t_1-2", "/~t_1-2"),
        ];
        let (t, p) = *self.rng().pick(pool);
        (t.to_string(), p.to_string())
    }

    fn usable_ctx(&mut self) -> u128 {
        let u: Vec<u128> = self.r.model.usable_contexts().into_iter().collect();
        *self.r.rng.pick(&u)
    }

    fn body_bytes(&mut self) -> Vec<u8> {
        let n = *self.rng().pick(&[0usize, 0, 1, 5, 100, 8191, 8192, 8193, 65537, 300_000]);
        let mut b = self.rng().bytes(n);
        if self.rng().chance(300) {
            for x in b.iter_mut() {
                *x = b'a' + (*x % 26);
            }
        }
        b
    }

    fn append_valid(&mut self) -> R<()> {
        let (topic, path) = self.topic_and_path();
        let ctx = if self.rng().chance(500) { ZERO_CONTEXT.to_u128() } else { self.usable_ctx() };
        let (ttl_q, ttl): (Option<&str>, TTL) = match self.rng().below(7) {
            0 | 1 => (None, TTL::Forever),
            2 => (Some("forever"), TTL::Forever),
            3 => (Some("ephemeral"), TTL::Ephemeral),
            4 => (Some("head:3"), TTL::Head(3)),
            5 => (Some("head:1"), TTL::Head(1)),
            _ => (Some("time:1000000000000"), TTL::Time(Duration::from_millis(1_000_000_000_000))),
        };
        let meta: Option<Value> = match self.rng().below(5) {
            0 | 1 => None,
            2 => Some(json!({"k": 1, "s": "é日本", "n": null, "l": [1, 2, {"x": true}]})),
            3 => Some(json!("just a string")),
            _ => crate::gen::meta(&mut self.r.rng),
        };
        let body = self.body_bytes();
        let mut q = vec![];
        if let Some(t) = ttl_q {
            q.push(format!("ttl={}", t));
        }
        if ctx != 0 || self.rng().chance(200) {
            q.push(format!("context={}", id_str(ctx)));
        }
        let target = if q.is_empty() { path.clone() } else { format!("{}?{}", path, q.join("&")) };
        let mut req = Req::new("POST", &target).body(&body);
        if let Some(m) = &meta {
            req = req.header("xs-meta", b64(serde_json::to_string(m).unwrap().as_bytes()).as_bytes());
        }
        if !body.is_empty() && self.rng().chance(400) {
            let cs = *self.rng().pick(&[1usize, 7, 4096, 8192, 100_000]);
            req = req.chunked(if body.len() > 20_000 && cs < 100 { 4096 } else { cs });
        }
        let expect_frame = Frame::builder(topic.clone(), Scru128Id::from(ctx))
            .maybe_meta(meta.clone().filter(|m| !m.is_null()))
            .ttl(if topic == "xs.context" { TTL::Forever } else { ttl.clone() })
            .maybe_hash(if body.is_empty() { None } else { crate::cas::sha256_integrity(&body).parse().ok() })
            .build();
        let allowed = self.r.model.append_allowed(&expect_frame);
        let keep = self.rng().chance(300);
        let resp = self.exchange(&req, if allowed.is_ok() { Class::Ok2xx } else { Class::Client4xx }, "POST-topic", "valid", keep)?;
        if let Some(resp) = resp {
            if resp.status / 100 == 2 {
                match serde_json::from_slice::<Frame>(&resp.body) {
                    Ok(got) => {
                        let mut exp = expect_frame.clone();
                        exp.id = got.id;
                        if got != exp {
                            let sig = if got.hash != exp.hash {
                                if body.is_empty() { "POST-topic/empty-body-got-a-hash" } else { "POST-topic/hash-is-not-sha256-of-body" }
                            } else {
                                "POST-topic/returned-frame-differs-from-request"
                            };
                            self.find(if sig.contains("hash") { &["C13", "C10"] } else { &["C13"] }, sig.into(), json!({"target": target, "expected": exp, "got": got, "body_len": body.len()}));
                        }
                        self.r.note_external_append(&got);
                        *self.r.res.counters.entry("http.appends".into()).or_insert(0) += 1;
                        // C10: content retrievable right away, byte for byte
                        if let Some(h) = &got.hash {
                            if self.rng().chance(500) {
                                self.cas_get_expect(&h.to_string(), Some(&body))?;
                            }
                        }
                    }
                    Err(e) => self.find(&["C13"], "POST-topic/response-is-not-a-frame".into(), json!({"target": target, "error": e.to_string(), "body": String::from_utf8_lossy(&resp.body[..resp.body.len().min(200)])})),
                }
            }
        }
        self.state_check()
    }

    fn register_ctx(&mut self) -> R<()> {
        let ttl = *self.rng().pick(&["", "?ttl=ephemeral", "?ttl=head:1", "?ttl=time:1"]);
        let req = Req::new("POST", &format!("/xs.context{}", ttl));
        if let Some(resp) = self.exchange(&req, Class::Ok2xx, "POST-topic", "register-context", false)? {
            if resp.status == 200 {
                if let Ok(got) = serde_json::from_slice::<Frame>(&resp.body) {
                    if got.ttl != Some(TTL::Forever) {
                        self.find(&["C13", "C07"], "POST-topic/context-registration-not-forced-forever".into(), json!({"got": got}));
                    }
                    let mut exp = got.clone();
                    exp.ttl = Some(TTL::Forever);
                    self.r.note_external_append(&exp);
                }
            }
        }
        self.state_check()
    }

    fn append_invalid(&mut self) -> R<()> {
        let (_topic, path) = self.topic_and_path();
        let kind = self.rng().below(12);
        let body = if self.rng().chance(500) { b"payload".to_vec() } else { vec![] };
        let (req, class, cause): (Req, Class, &'static str) = match kind {
            0 => {
                let t = *self.rng().pick(&["head:0", "head:-1", "head:abc", "head:", "time:", "time:-1", "time:1.5", "time:99999999999999999999999", "head:4294967296", "Forever", "unknown", "", "head", "5"]);
                (Req::new("POST", &format!("{}?ttl={}", path, t)).body(&body), Class::Client4xx, "bad-ttl")
            }
            1 => {
                let c = *self.rng().pick(&["xyz", "", "0", "03gy4klv2h02u3x987n90p9hdX", "zzzzzzzzzzzzzzzzzzzzzzzzz", "%00"]);
                (Req::new("POST", &format!("{}?context={}", path, c)).body(&body), Class::Client4xx, "malformed-context")
            }
            2 => {
                let bogus = self.r.bogus_ctxs.clone();
                let c = *self.rng().pick(&bogus);
                (Req::new("POST", &format!("/a?context={}", id_str(c))).body(&body), Class::Client4xx, "invalid-context")
            }
            3 => {
                let c = self.usable_ctx();
                if c == 0 {
                    return Ok(());
                }
                (Req::new("POST", &format!("/xs.context?context={}", id_str(c))), Class::Client4xx, "xs.context-outside-zero")
            }
            4 => (Req::new("POST", &path).header("xs-meta", b"!!!not-base64!!!").body(&body), Class::Client4xx, "xs-meta-bad-base64"),
            5 => {
                // invalid UTF-8: as garbage, and inside a string literal of otherwise well-formed JSON
                let raw: &[u8] = *self.rng().pick(&[&[0xffu8, 0xfe, 0x80][..], b"{\"a\":\"\xff\"}", b"{\"k\xc3\":1}", b"[\"ok\", \"\xe2\x28\xa1\"]", b"\"\xed\xa0\x80\""]);
                (Req::new("POST", &path).header("xs-meta", b64(raw).as_bytes()).body(&body), Class::Client4xx, "xs-meta-bad-utf8")
            }
            6 => (Req::new("POST", &path).header("xs-meta", b64(b"{not json").as_bytes()).body(&body), Class::Client4xx, "xs-meta-bad-json"),
            7 => (Req::new("POST", &path).header("xs-meta", &[b'e', 0xc3, 0xa9, 0xff, b'=']).body(&body), Class::Client4xx, "xs-meta-non-ascii-header"),
            8 => (Req::new("POST", &path).header("xs-meta", b"").body(&body), Class::Client4xx, "xs-meta-empty"),
            9 => {
                let deep = serde_json::to_string(&crate::gen::nested(200, true)).unwrap();
                (Req::new("POST", &path).header("xs-meta", b64(deep.as_bytes()).as_bytes()).body(&body), Class::Client4xx, "xs-meta-too-deep")
            }
            10 => {
                let t = *self.rng().pick(&["head:0", "bogus"]);
                (Req::new("POST", &format!("{}?ttl={}&context=nope", path, t)), Class::Client4xx, "bad-ttl-and-context")
            }
            _ => {
                // valid JSON but huge (may hit header limits: either is fine)
                let big = json!({"big": "x".repeat(120_000)});
                (Req::new("POST", "/a").header("xs-meta", b64(serde_json::to_string(&big).unwrap().as_bytes()).as_bytes()), Class::OkOr4xx, "xs-meta-huge")
            }
        };
        let keep = self.rng().chance(300);
        let resp = self.exchange(&req, class, "POST-topic", cause, keep)?;
        if let Some(resp) = resp {
            if resp.status / 100 == 2 {
                if let Ok(got) = serde_json::from_slice::<Frame>(&resp.body) {
                    // accepted (allowed for OkOr4xx; otherwise already reported): keep the model in line
                    self.r.note_external_append(&got);
                }
            }
        }
        self.state_check()
    }

    fn client_abort(&mut self) -> R<()> {
        // Content-Length promises more than is sent, then the client goes away
        self.r.step += 1;
        let partial = self.rng().bytes(5000);
        let mut raw = format!("POST /a HTTP/1.1\r\nHost: x\r\nContent-Length: {}\r\n\r\n", partial.len() + 4000).into_bytes();
        raw.extend_from_slice(&partial);
        if let Ok(mut c) = Conn::open(&self.sock) {
            let _ = c.send(&raw);
            std::thread::sleep(Duration::from_millis(20));
            drop(c);
        }
        *self.r.res.counters.entry("http.client_aborts".into()).or_insert(0) += 1;
        self.r.res.sets.entry("request_classes".into()).or_default().insert("POST-topic/client-abort-mid-body/Free".into());
        std::thread::sleep(Duration::from_millis(30));
        // nothing stored, partial content not committed, server alive
        self.exchange(&Req::new("GET", "/version"), Class::Ok2xx, "GET-version", "after-abort", false)?;
        let h = crate::cas::sha256_integrity(&partial);
        self.cas_get_expect(&h, None)?;
        self.state_check()
    }

    fn cas_get_expect(&mut self, hash: &str, content: Option<&[u8]>) -> R<()> {
        let req = Req::new("GET", &format!("/cas/{}", hash));
        let class = if content.is_some() { Class::Ok2xx } else { Class::NotFound };
        let cause = if content.is_some() { "present" } else { "absent" };
        if let Some(resp) = self.exchange(&req, class, "GET-cas", cause, false)? {
            if let Some(c) = content {
                if resp.status == 200 && resp.body != c {
                    self.find(&["C13", "C10"], "GET-cas/content-differs".into(), json!({"hash": hash, "expected_len": c.len(), "got_len": resp.body.len()}));
                }
            }
        }
        Ok(())
    }

    fn cas_ops(&mut self) -> R<()> {
        match self.rng().below(5) {
            0 | 1 => {
                let body = loop {
                    let b = self.body_bytes();
                    if !b.is_empty() {
                        break b;
                    }
                };
                let mut req = Req::new("POST", "/cas").body(&body);
                if self.rng().chance(400) {
                    req = req.chunked(*self.rng().pick(&[3usize, 4096, 8192]));
                }
                if let Some(resp) = self.exchange(&req, Class::Ok2xx, "POST-cas", "valid", false)? {
                    let got = String::from_utf8_lossy(&resp.body).to_string();
                    let want = crate::cas::sha256_integrity(&body);
                    if resp.status == 200 && got != want {
                        self.find(&["C13", "C10"], "POST-cas/hash-is-not-sha256-of-body".into(), json!({"got": got, "want": want, "len": body.len()}));
                    }
                    if resp.status == 200 {
                        self.cas_get_expect(&want, Some(&body))?;
                    }
                }
            }
            2 => {
                self.exchange(&Req::new("POST", "/cas"), Class::Client4xx, "POST-cas", "empty-body", false)?;
            }
            3 => {
                let h = crate::cas::sha256_integrity(&self.r.rng.bytes(16));
                self.cas_get_expect(&h, None)?;
            }
            _ => {
                let bad = *self.rng().pick(&["xyz", "sha256-!!!", "md5-abc", "sha256-", "sha256", "-", "sha999-AAAA", "sha256-QQ==", "sha256-QUI=", "sha512-", "sha1-QQ==", "sha256-QUJD"]);
                self.exchange(&Req::new("GET", &format!("/cas/{}", bad)), Class::Client4xx, "GET-cas", "malformed-hash", false)?;
            }
        }
        self.state_check()
    }

    fn pick_existing(&mut self) -> Option<u128> {
        let live: Vec<u128> = self.r.model.frames.iter().filter(|(_, m)| self.r.model.physical(m) == P3::Must).map(|(i, _)| *i).collect();
        if live.is_empty() {
            None
        } else {
            Some(*self.r.rng.pick(&live))
        }
    }

    fn get_item(&mut self) -> R<()> {
        match self.rng().below(4) {
            0 | 1 => {
                if let Some(id) = self.pick_existing() {
                    if let Some(resp) = self.exchange(&Req::new("GET", &format!("/{}", id_str(id))), Class::Ok2xx, "GET-id", "existing", true)? {
                        if resp.status == 200 {
                            match serde_json::from_slice::<Frame>(&resp.body) {
                                Ok(f) if frame_digest(&f) == self.r.model.frames[&id].digest => {}
                                Ok(f) => self.find(&["C13"], "GET-id/frame-differs-from-stored".into(), json!({"got": f, "expected": self.r.model.frames[&id].frame})),
                                Err(e) => self.find(&["C13"], "GET-id/response-is-not-a-frame".into(), json!({"error": e.to_string()})),
                            }
                        }
                    }
                }
            }
            2 => {
                let removed: Vec<u128> = self.r.model.frames.iter().filter(|(_, m)| m.removed).map(|(i, _)| *i).collect();
                let id = if !removed.is_empty() && self.rng().chance(500) { *self.r.rng.pick(&removed) } else { scru128::new().to_u128() - 12345 };
                if !self.r.model.frames.get(&id).map(|m| !m.removed).unwrap_or(false) {
                    self.exchange(&Req::new("GET", &format!("/{}", id_str(id))), Class::NotFound, "GET-id", "absent", false)?;
                }
            }
            _ => {
                let bad = *self.rng().pick(&["zzz", "03gy4klv2h02u3x987n90p9hdX", "cas", "import", "head", "0", "a/b", "03GY4KLV2H02U3X987N90P9H!"]);
                self.exchange(&Req::new("GET", &format!("/{}", bad)), Class::Client4xx, "GET-id", "malformed-id", false)?;
            }
        }
        Ok(())
    }

    fn delete_item(&mut self) -> R<()> {
        match self.rng().below(4) {
            0 | 1 => {
                // never remove context registrations here (their effect is C07's subject); keep xs.start
                let cand: Vec<u128> = self
                    .r
                    .model
                    .frames
                    .iter()
                    .filter(|(_, m)| self.r.model.physical(m) == P3::Must && m.frame.topic != "xs.context")
                    .map(|(i, _)| *i)
                    .collect();
                if cand.is_empty() {
                    return Ok(());
                }
                let id = *self.r.rng.pick(&cand);
                if let Some(resp) = self.exchange(&Req::new("DELETE", &format!("/{}", id_str(id))), Class::Ok2xx, "DELETE-id", "existing", true)? {
                    if resp.status / 100 == 2 {
                        self.r.model.on_remove(&Scru128Id::from(id));
                    }
                }
            }
            2 => {
                let id = scru128::new().to_u128() - 777;
                self.exchange(&Req::new("DELETE", &format!("/{}", id_str(id))), Class::Ok2xx, "DELETE-id", "absent", false)?;
            }
            _ => {
                // malformed ids, among them ones derived from an id that exists (nothing may be removed by them)
                let existing = self.pick_existing().map(id_str);
                let bad: String = match (self.rng().below(7), existing) {
                    (0, Some(e)) => format!("{}/", e),
                    (1, Some(e)) => format!("{}//", e),
                    (2, Some(e)) => format!("{}/x", e),
                    (3, Some(e)) => format!("{}%20", e),
                    _ => self.rng().pick(&["", "zzz", "cas/x", "03gy4klv2h02u3x987n90p9hdX"]).to_string(),
                };
                let method = if self.rng().chance(700) { "DELETE" } else { "GET" };
                if method == "DELETE" {
                    self.exchange(&Req::new("DELETE", &format!("/{}", bad)), Class::Client4xx, "DELETE-id", "malformed-id", false)?;
                } else if !bad.is_empty() && bad != "cas/x" {
                    self.exchange(&Req::new("GET", &format!("/{}", bad)), Class::Client4xx, "GET-id", "malformed-id", false)?;
                }
            }
        }
        self.state_check()
    }

    fn head_get(&mut self) -> R<()> {
        let topics = ["a", "ab", "a.b", "x%20y", "cas/x", "nothing-here", "t", ""];
        let topic = *self.rng().pick(&topics);
        match self.rng().below(4) {
            0 => {
                let bad = *self.rng().pick(&["xyz", "", "1"]);
                self.exchange(&Req::new("GET", &format!("/head/{}?context={}", topic, bad)), Class::Client4xx, "GET-head", "malformed-context", false)?;
            }
            _ => {
                let mut all: Vec<u128> = self.r.model.usable_contexts().into_iter().collect();
                all.extend(self.r.bogus_ctxs.iter());
                let ctx = *self.r.rng.pick(&all);
                let target = if ctx == 0 && self.rng().chance(500) { format!("/head/{}", topic) } else { format!("/head/{}?context={}", topic, id_str(ctx)) };
                // what the model allows: Some(must) / none
                let cands: Vec<&MFrame> = self.r.model.frames.values().filter(|m| m.frame.context_id.to_u128() == ctx && m.frame.topic == topic).collect();
                let any_may = cands.iter().any(|m| self.r.model.physical(m) != P3::Gone);
                let any_must = cands.iter().any(|m| self.r.model.physical(m) == P3::Must);
                let class = if any_must { Class::Ok2xx } else if any_may { Class::OkOr4xx } else { Class::NotFound };
                if let Some(resp) = self.exchange(&Req::new("GET", &target), class, "GET-head", if any_must { "exists" } else { "none" }, true)? {
                    let obs = if resp.status == 200 {
                        serde_json::from_slice::<Frame>(&resp.body).ok().map(|f| (f.id.to_u128(), f.topic.clone(), f.context_id.to_u128()))
                    } else {
                        None
                    };
                    if resp.status == 200 || resp.status == 404 {
                        let mut fs = self.r.model.check_head(topic, ctx, obs);
                        for f in fs.iter_mut() {
                            f.props.push("C13");
                            f.signature = format!("GET-head/{}", f.signature);
                        }
                        let step = self.r.step;
                        self.r.res.add_pub(step, fs);
                    }
                }
            }
        }
        Ok(())
    }

    fn import_ops(&mut self) -> R<()> {
        match self.rng().below(6) {
            0 | 1 | 2 => {
                let id = scru128::new().to_u128() - (self.rng().below(1_000_000) as u128);
                if self.r.model.frames.contains_key(&id) {
                    return Ok(());
                }
                let ctx = if self.rng().chance(500) { 0 } else { self.usable_ctx() };
                let f = Frame::builder(*self.rng().pick(&["a", "ab", "imported", ""]), Scru128Id::from(ctx))
                    .id(Scru128Id::from(id))
                    .maybe_meta(crate::gen::meta(&mut self.r.rng))
                    .maybe_ttl(if self.rng().chance(500) { Some(TTL::Forever) } else { None })
                    .build();
                let body = serde_json::to_vec(&f).unwrap();
                if let Some(resp) = self.exchange(&Req::new("POST", "/import").body(&body), Class::Ok2xx, "POST-import", "valid", true)? {
                    if resp.status == 200 {
                        match serde_json::from_slice::<Frame>(&resp.body) {
                            Ok(g) if g == f => {}
                            other => self.find(&["C13", "C20"], "POST-import/returned-frame-differs".into(), json!({"sent": f, "got": other.map_err(|e| e.to_string())})),
                        }
                        self.r.model.on_import(&f);
                        *self.r.res.counters.entry("http.imports".into()).or_insert(0) += 1;
                    }
                }
            }
            3 => {
                let bad: &[u8] = *self.rng().pick(&[&b"{not json"[..], b"", b"[]", b"{\"a\":1}", b"{\"topic\":5,\"context_id\":\"0000000000000000000000000\",\"id\":\"03gy4klv2h02u3x987n90p9hd\"}", b"null", b"{\"topic\":\"t\",\"context_id\":\"nope\",\"id\":\"03gy4klv2h02u3x987n90p9hd\",\"hash\":null,\"meta\":null,\"ttl\":null}", b"{\"topic\":\"t\",\"context_id\":\"0000000000000000000000000\",\"id\":\"03gy4klv2h02u3x987n90p9hd\",\"hash\":null,\"meta\":null,\"ttl\":\"head:0\"}"]);
                self.exchange(&Req::new("POST", "/import").body(bad), Class::Client4xx, "POST-import", "not-a-frame", false)?;
            }
            4 => {
                let f = Frame::builder("nul\0topic", ZERO_CONTEXT).id(scru128::new()).build();
                self.exchange(&Req::new("POST", "/import").body(&serde_json::to_vec(&f).unwrap()), Class::Client4xx, "POST-import", "nul-topic", false)?;
            }
            _ => {
                // same frame again: idempotent
                if let Some(id) = self.pick_existing() {
                    let f = self.r.model.frames[&id].frame.clone();
                    if self.r.model.frames[&id].evictable {
                        return Ok(());
                    }
                    self.exchange(&Req::new("POST", "/import").body(&serde_json::to_vec(&f).unwrap()), Class::Ok2xx, "POST-import", "same-frame-again", false)?;
                }
            }
        }
        self.state_check()
    }

    fn cat(&mut self) -> R<()> {
        let sse = self.rng().chance(400);
        let kind = self.rng().below(10);
        if kind == 0 {
            let bad = *self.rng().pick(&["limit=-1", "last-id=zz", "follow=maybe", "context-id=bad", "limit=1&limit=2", "limit=abc", "last-id=", "limit=1.5", "context-id="]);
            let mut req = Req::new("GET", &format!("/?{}", bad));
            if sse {
                req = req.header("Accept", b"text/event-stream");
            }
            self.exchange(&req, Class::Client4xx, "GET-cat", "bad-options", true)?;
            return Ok(());
        }
        let ids: Vec<u128> = self.r.model.frames.keys().copied().collect();
        let ctx: Option<u128> = match self.rng().below(4) {
            0 | 1 => None,
            2 => Some(0),
            _ => Some(self.usable_ctx()),
        };
        let last_id: Option<u128> = if !ids.is_empty() && self.rng().chance(500) { Some(*self.r.rng.pick(&ids)) } else { None };
        let n_scope = {
            let m = &self.r.model;
            m.in_scope(ctx, last_id).filter(|f| m.readable(f) == P3::Must).count()
        };
        let limit: Option<usize> = match self.rng().below(5) {
            0 | 1 => None,
            2 => Some(1),
            3 => Some(n_scope.saturating_sub(1).max(1)),
            _ => Some(n_scope + 2),
        };
        // follow only in shapes whose stream must end by itself: limit <= number of historical matches
        let follow = limit.map(|l| l <= n_scope && l > 0).unwrap_or(false) && self.rng().chance(300) && !self.r.model.frames.values().any(|m| self.r.model.readable(m) == P3::May);
        let mut q = vec![];
        if let Some(c) = ctx {
            q.push(format!("context-id={}", id_str(c)));
        }
        if let Some(l) = last_id {
            q.push(format!("last-id={}", id_str(l)));
        }
        if let Some(l) = limit {
            q.push(format!("limit={}", l));
        }
        if follow {
            q.push("follow=true".into());
        }
        let tail = !follow && self.rng().chance(80);
        if tail {
            q.push("tail=true".into());
        }
        let target = if q.is_empty() { "/".to_string() } else { format!("/?{}", q.join("&")) };
        let mut req = Req::new("GET", &target);
        if sse {
            req = req.header("Accept", b"text/event-stream");
        }
        let cause = if follow { "follow-limit" } else if tail { "tail" } else { "history" };
        if let Some(resp) = self.exchange(&req, Class::Ok2xx, if sse { "GET-cat-sse" } else { "GET-cat-ndjson" }, cause, false)? {
            if resp.status == 200 {
                let ct = resp.headers.iter().find(|(k, _)| k == "content-type").map(|(_, v)| v.clone()).unwrap_or_default();
                let want_ct = if sse { "text/event-stream" } else { "application/x-ndjson" };
                if ct != want_ct {
                    self.find(&["C13"], "GET-cat/wrong-content-type".into(), json!({"got": ct, "want": want_ct}));
                }
                let frames: Vec<Value> = if sse {
                    let evs = http::sse(&resp.body);
                    for (id, data) in &evs {
                        if data.get("id").and_then(|i| i.as_str()) != Some(id.as_str()) {
                            self.find(&["C13"], "GET-cat-sse/id-field-differs-from-frame-id".into(), json!({"id_line": id, "data": data}));
                            break;
                        }
                    }
                    evs.into_iter().map(|e| e.1).collect()
                } else {
                    http::ndjson(&resp.body)
                };
                let mut obs = vec![];
                for v in &frames {
                    match serde_json::from_value::<Frame>(v.clone()) {
                        Ok(f) => obs.push((f.id.to_u128(), frame_digest(&f))),
                        Err(e) => {
                            self.find(&["C13"], "GET-cat/body-item-is-not-a-frame".into(), json!({"item": v, "error": e.to_string()}));
                        }
                    }
                }
                *self.r.res.counters.entry("http.frames_compared".into()).or_insert(0) += obs.len() as u64;
                let mut fs = if tail { if obs.is_empty() { vec![] } else { vec![finding(&["C13", "C11"], "tail-without-follow-returned-frames", json!({"n": obs.len()}))] } } else { self.r.model.check_read("http", ctx, last_id, limit, &obs) };
                for f in fs.iter_mut() {
                    f.props.push("C13");
                    f.signature = format!("GET-cat/{}", f.signature);
                }
                let step = self.r.step;
                self.r.res.add_pub(step, fs);
                if !resp.complete {
                    self.find(&["C13", "C11"], "GET-cat/stream-did-not-end".into(), json!({"target": target}));
                }
            }
        }
        Ok(())
    }

    /// follow + tail over HTTP: frames appended through another connection arrive, in order, and the
    /// limit ends the stream (NDJSON or SSE)
    fn follow_live(&mut self) -> R<()> {
        self.r.step += 1;
        let sse = self.rng().chance(400);
        let k = 1 + self.rng().below(3);
        let ctx = if self.rng().chance(500) { 0 } else { self.usable_ctx() };
        let target = format!("/?follow=true&tail=true&limit={}&context-id={}", k, id_str(ctx));
        let mut req = Req::new("GET", &target);
        if sse {
            req = req.header("Accept", b"text/event-stream");
        }
        let mut conn = match Conn::open(&self.sock) {
            Ok(c) => c,
            Err(_) => return Ok(()),
        };
        if conn.send(&req.bytes()).is_err() {
            return Ok(());
        }
        let head = conn.read_head(T);
        let (status, headers) = match head {
            Ok(h) => h,
            Err(e) => {
                self.find(&["C13"], "dropped-connection/GET-cat/follow-tail".into(), json!({"error": e.to_string()}));
                return Ok(());
            }
        };
        if status != 200 {
            self.find(&["C13"], format!("status-mismatch/GET-cat/follow-tail/got={}", status), json!({"target": target}));
            return Ok(());
        }
        // appends on other connections: one foreign-context frame first, then k matching
        let other = if ctx == 0 { self.r.model.usable_contexts().into_iter().find(|c| *c != 0) } else { Some(0) };
        let mut expect = vec![];
        if let Some(o) = other {
            if let Ok(resp) = http::once(&self.sock, &Req::new("POST", &format!("/live?context={}", id_str(o))).body(b"x"), T) {
                if let Ok(f) = serde_json::from_slice::<Frame>(&resp.body) {
                    self.r.note_external_append(&f);
                }
            }
        }
        for i in 0..k + 1 {
            if let Ok(resp) = http::once(&self.sock, &Req::new("POST", &format!("/live?context={}", id_str(ctx))).body(format!("live {}", i).as_bytes()), T) {
                if let Ok(f) = serde_json::from_slice::<Frame>(&resp.body) {
                    if i < k {
                        expect.push((f.id.to_u128(), frame_digest(&f)));
                    }
                    self.r.note_external_append(&f);
                }
            }
        }
        let (body, complete, _) = match conn.read_body(&headers, Duration::from_secs(10), |_| false) {
            Ok(x) => x,
            Err(e) => {
                self.find(&["C13"], "dropped-connection/GET-cat/follow-tail-body".into(), json!({"error": e.to_string()}));
                return Ok(());
            }
        };
        let vals: Vec<Value> = if sse { http::sse(&body).into_iter().map(|e| e.1).collect() } else { http::ndjson(&body) };
        let got: Vec<(u128, u64)> = vals.iter().filter_map(|v| serde_json::from_value::<Frame>(v.clone()).ok()).map(|f| (f.id.to_u128(), frame_digest(&f))).collect();
        *self.r.res.counters.entry("http.live_follow_streams".into()).or_insert(0) += 1;
        if got != expect {
            let foreign = got.iter().any(|g| self.r.model.frames.get(&g.0).map(|m| m.frame.context_id.to_u128() != ctx).unwrap_or(false));
            let sig = if foreign { "GET-cat/follow-delivered-frame-of-foreign-context" } else { "GET-cat/follow-tail-limit-frames-differ" };
            self.find(if foreign { &["C13", "C06"] } else { &["C13", "C11"] }, sig.into(), json!({"target": target, "sse": sse, "got": got.iter().map(|g| id_str(g.0)).collect::<Vec<_>>(), "expected": expect.iter().map(|g| id_str(g.0)).collect::<Vec<_>>(), "complete": complete}));
        } else if !complete {
            self.find(&["C13", "C11"], "GET-cat/follow-limit-stream-did-not-end".into(), json!({"target": target}));
        }
        self.state_check()
    }

    /// GET /head/{topic}?follow&context=: the head, then later frames of exactly that topic and context
    fn head_follow(&mut self) -> R<()> {
        self.r.step += 1;
        let ctx = if self.rng().chance(400) { 0 } else { self.usable_ctx() };
        let other = self.r.model.usable_contexts().into_iter().find(|c| *c != ctx);
        let topic = "hf";
        let target = if ctx == 0 && self.rng().chance(500) { format!("/head/{}?follow=true", topic) } else { format!("/head/{}?follow=true&context={}", topic, id_str(ctx)) };
        let current = self
            .r
            .model
            .frames
            .values()
            .filter(|m| m.frame.context_id.to_u128() == ctx && m.frame.topic == topic && self.r.model.physical(m) == P3::Must)
            .last()
            .map(|m| m.frame.id.to_u128());
        let mut conn = match Conn::open(&self.sock) {
            Ok(c) => c,
            Err(_) => return Ok(()),
        };
        let _ = conn.send(&Req::new("GET", &target).bytes());
        let (status, headers) = match conn.read_head(T) {
            Ok(h) => h,
            Err(e) => {
                self.find(&["C13"], "dropped-connection/GET-head/follow".into(), json!({"error": e.to_string()}));
                return Ok(());
            }
        };
        if status != 200 {
            self.find(&["C13"], format!("status-mismatch/GET-head/follow/got={}", status), json!({"target": target}));
            return Ok(());
        }
        let post = |h: &mut H, path: String, body: &[u8]| -> Option<Frame> {
            let resp = http::once(&h.sock, &Req::new("POST", &path).body(body), T).ok()?;
            let f = serde_json::from_slice::<Frame>(&resp.body).ok()?;
            h.r.note_external_append(&f);
            Some(f)
        };
        let mut expect: Vec<u128> = current.into_iter().collect();
        // same topic in another context, another topic in this context, then two matching frames
        if let Some(o) = other {
            post(self, format!("/{}?context={}", topic, id_str(o)), b"foreign");
        }
        post(self, format!("/hf2?context={}", id_str(ctx)), b"other topic");
        for i in 0..2 {
            if let Some(f) = post(self, format!("/{}?context={}", topic, id_str(ctx)), format!("m{}", i).as_bytes()) {
                expect.push(f.id.to_u128());
            }
        }
        let want = expect.len();
        // read until the expected number of lines arrived (bounded), then a short grace for extras
        let (mut body, _, _) = conn.read_body(&headers, Duration::from_secs(5), |b| http::ndjson(b).len() >= want).unwrap_or((vec![], false, true));
        if let Ok((more, _, _)) = conn.read_body(&headers, Duration::from_millis(150), |_| false) {
            body.extend_from_slice(&more);
        }
        let got: Vec<Frame> = http::ndjson(&body).into_iter().filter_map(|v| serde_json::from_value(v).ok()).collect();
        let got_ids: Vec<u128> = got.iter().map(|f| f.id.to_u128()).collect();
        *self.r.res.counters.entry("http.head_follow_streams".into()).or_insert(0) += 1;
        if let Some(f) = got.iter().find(|f| f.context_id.to_u128() != ctx) {
            self.find(&["C13", "C06"], "GET-head-follow/delivered-frame-of-foreign-context".into(), json!({"target": target, "frame": f}));
        } else if let Some(f) = got.iter().find(|f| f.topic != topic) {
            self.find(&["C13"], "GET-head-follow/delivered-frame-of-other-topic".into(), json!({"target": target, "frame": f}));
        } else if got_ids != expect {
            self.find(&["C13"], "GET-head-follow/frames-differ".into(), json!({"target": target, "got": got_ids.iter().map(|i| id_str(*i)).collect::<Vec<_>>(), "expected": expect.iter().map(|i| id_str(*i)).collect::<Vec<_>>()}));
        }
        self.state_check()
    }

    /// run the repository's own CLI (xs-real = /repo/src/main.rs against the hooked library) under a watchdog
    fn cli(&self, args: &[&str], stdin: Option<&[u8]>) -> Option<(i32, Vec<u8>, String)> {
        use std::io::Write;
        use std::process::{Command, Stdio};
        let bin = crate::session::self_exe().parent()?.join("xs-real");
        if !bin.exists() {
            return None;
        }
        let mut child = Command::new("timeout").arg("-k").arg("2").arg("20").arg(&bin).args(args).stdin(Stdio::piped()).stdout(Stdio::piped()).stderr(Stdio::piped()).spawn().ok()?;
        {
            let mut si = child.stdin.take()?;
            if let Some(b) = stdin {
                let _ = si.write_all(b);
            }
        }
        let out = child.wait_with_output().ok()?;
        Some((out.status.code().unwrap_or(-1), out.stdout, String::from_utf8_lossy(&out.stderr).to_string()))
    }

    /// the client side of the wire: option / ttl / meta encoding by the CLI, decoding by the server
    fn cli_ops(&mut self) -> R<()> {
        self.r.step += 1;
        let dir = self.r.dir.to_string_lossy().to_string();
        let kind = self.rng().below(8);
        *self.r.res.counters.entry("cli.invocations".into()).or_insert(0) += 1;
        match kind {
            0 | 1 | 2 => {
                // xs cat with option combinations
                let ids: Vec<u128> = self.r.model.frames.keys().copied().collect();
                let scope = self.rng().below(3); // 0 default (zero context), 1 -c ctx, 2 --all
                let ctx: Option<u128> = match scope {
                    0 => Some(0),
                    1 => Some(self.usable_ctx()),
                    _ => None,
                };
                let last_id: Option<u128> = if !ids.is_empty() && self.rng().chance(500) { Some(*self.r.rng.pick(&ids)) } else { None };
                let limit: Option<usize> = if self.rng().chance(500) { Some(1 + self.rng().below(6)) } else { None };
                let sse = self.rng().chance(300);
                let mut args: Vec<String> = vec!["cat".into(), dir.clone()];
                match scope {
                    1 => {
                        args.push("-c".into());
                        args.push(id_str(ctx.unwrap()));
                    }
                    2 => args.push("--all".into()),
                    _ => {}
                }
                if let Some(l) = last_id {
                    args.push("--last-id".into());
                    args.push(id_str(l));
                }
                if let Some(l) = limit {
                    args.push("--limit".into());
                    args.push(l.to_string());
                }
                if sse {
                    args.push("--sse".into());
                }
                let a: Vec<&str> = args.iter().map(|s| s.as_str()).collect();
                let Some((code, out, err)) = self.cli(&a, None) else { return Ok(()) };
                if code != 0 {
                    self.find(&["C13", "C12"], "cli-cat/failed".into(), json!({"args": args, "exit": code, "stderr": err.chars().take(300).collect::<String>()}));
                    return Ok(());
                }
                // (observation, not a verdict: `xs cat --sse` sends two Accept headers and the server honours the
                // first, */*, so the output is NDJSON either way; both renderings are accepted here)
                let is_sse = out.starts_with(b"id: ");
                if sse {
                    *self.r.res.counters.entry(if is_sse { "cli.sse_flag_gave_sse" } else { "cli.sse_flag_gave_ndjson" }.into()).or_insert(0) += 1;
                }
                let vals: Vec<Value> = if is_sse { http::sse(&out).into_iter().map(|e| e.1).collect() } else { http::ndjson(&out) };
                let obs: Vec<(u128, u64)> = vals.iter().filter_map(|v| serde_json::from_value::<Frame>(v.clone()).ok()).map(|f| (f.id.to_u128(), frame_digest(&f))).collect();
                *self.r.res.counters.entry("cli.frames_compared".into()).or_insert(0) += obs.len() as u64;
                let mut fs = self.r.model.check_read("cli-cat", ctx, last_id, limit, &obs);
                for f in fs.iter_mut() {
                    f.props.push("C13");
                    f.props.push("C12");
                    f.signature = format!("cli/{}", f.signature);
                    f.detail = json!({"args": args, "what": f.detail});
                }
                let step = self.r.step;
                self.r.res.add_pub(step, fs);
            }
            3 | 4 => {
                // xs append with --meta / --ttl / -c and content on stdin
                let ctx = if self.rng().chance(500) { 0 } else { self.usable_ctx() };
                let (ttl_s, ttl): (Option<&str>, TTL) = match self.rng().below(6) {
                    0 | 1 => (None, TTL::Forever),
                    2 => (Some("ephemeral"), TTL::Ephemeral),
                    3 => (Some("head:2"), TTL::Head(2)),
                    4 => (Some("time:1000000000000"), TTL::Time(Duration::from_millis(1_000_000_000_000))),
                    _ => (Some("forever"), TTL::Forever),
                };
                let meta: Option<Value> = match self.rng().below(4) {
                    0 => None,
                    1 => Some(json!({"name": "Información", "n": 1, "nested": {"a": [1, 2, 3]}})),
                    2 => Some(json!({"s": "quote \" backslash \\ tab \t", "u": "日本"})),
                    _ => crate::gen::meta(&mut self.r.rng).filter(|m| m.is_object()),
                };
                let body = if self.rng().chance(200) { vec![] } else { let n = *self.rng().pick(&[1usize, 100, 8193, 70_000]); self.rng().bytes(n) };
                let topic = *self.rng().pick(&["cli", "a", "cli.topic"]);
                let mut args: Vec<String> = vec!["append".into(), dir.clone(), topic.into()];
                if let Some(m) = &meta {
                    args.push("--meta".into());
                    args.push(serde_json::to_string(m).unwrap());
                }
                if let Some(t) = ttl_s {
                    args.push("--ttl".into());
                    args.push(t.into());
                }
                if ctx != 0 {
                    args.push("-c".into());
                    args.push(id_str(ctx));
                }
                let a: Vec<&str> = args.iter().map(|s| s.as_str()).collect();
                let Some((code, out, err)) = self.cli(&a, Some(&body)) else { return Ok(()) };
                if code != 0 {
                    self.find(&["C13", "C12"], "cli-append/failed".into(), json!({"args": args, "exit": code, "stderr": err.chars().take(300).collect::<String>()}));
                    return self.state_check();
                }
                if out.is_empty() {
                    // exit 0 and nothing printed: `xs append` writes its answer with tokio's stdout and returns without a
                    // flush, so the line can be lost when the process exits (an observation about the CLI, not about the
                    // API); the append itself happened and its id is unknown here: the sequence cannot go on
                    *self.r.res.counters.entry("cli.exit_0_with_empty_output".into()).or_insert(0) += 1;
                    self.r.res.inconclusive = Some("xs append exited 0 without printing the frame (unflushed stdout); the model cannot follow".into());
                    return Ok(());
                }
                match serde_json::from_slice::<Frame>(&out) {
                    Ok(got) => {
                        let exp = Frame::builder(topic, Scru128Id::from(ctx)).id(got.id).maybe_meta(meta.clone()).ttl(ttl).maybe_hash(if body.is_empty() { None } else { crate::cas::sha256_integrity(&body).parse().ok() }).build();
                        if got != exp {
                            self.find(&["C13", "C12"], "cli-append/stored-frame-differs-from-what-the-client-was-asked".into(), json!({"args": args.iter().map(|a| a.chars().take(200).collect::<String>()).collect::<Vec<_>>(), "expected": exp, "got": got}));
                        }
                        self.r.note_external_append(&got);
                    }
                    Err(e) => self.find(&["C13"], "cli-append/output-is-not-a-frame".into(), json!({"error": e.to_string()})),
                }
                return self.state_check();
            }
            5 => {
                // get / head / remove by the CLI
                if let Some(id) = self.pick_existing() {
                    let ids = id_str(id);
                    if let Some((code, out, _)) = self.cli(&["get", &dir, &ids], None) {
                        if code == 0 && out.is_empty() {
                            *self.r.res.counters.entry("cli.exit_0_with_empty_output".into()).or_insert(0) += 1;
                            return Ok(());
                        }
                        match serde_json::from_slice::<Frame>(&out) {
                            Ok(f) if code == 0 && frame_digest(&f) == self.r.model.frames[&id].digest => {}
                            other => self.find(&["C13"], "cli-get/frame-differs-or-failed".into(), json!({"exit": code, "got": other.map_err(|e| e.to_string()), "expected": self.r.model.frames[&id].frame})),
                        }
                    }
                }
            }
            6 => {
                // cas-post then cas
                let n = *self.rng().pick(&[1usize, 9000, 100_000]);
                let body = self.rng().bytes(n);
                if let Some((code, out, err)) = self.cli(&["cas-post", &dir], Some(&body)) {
                    let want = crate::cas::sha256_integrity(&body);
                    if code == 0 && out.is_empty() {
                        // (unflushed stdout, see the append leg) the content itself must be there all the same
                        *self.r.res.counters.entry("cli.exit_0_with_empty_output".into()).or_insert(0) += 1;
                        if let Some((c2, o2, _)) = self.cli(&["cas", &dir, &want], None) {
                            if c2 != 0 || o2 != body {
                                self.find(&["C13", "C10"], "cli-cas/content-differs-or-failed".into(), json!({"exit": c2, "got_len": o2.len(), "want_len": body.len(), "after": "cas-post that printed nothing"}));
                            }
                        }
                    } else if code != 0 || String::from_utf8_lossy(&out).trim() != want {
                        self.find(&["C13", "C10"], "cli-cas-post/hash-differs-or-failed".into(), json!({"exit": code, "got": String::from_utf8_lossy(&out), "want": want, "stderr": err.chars().take(200).collect::<String>()}));
                    } else if let Some((c2, o2, _)) = self.cli(&["cas", &dir, &want], None) {
                        if c2 != 0 || o2 != body {
                            self.find(&["C13", "C10"], "cli-cas/content-differs-or-failed".into(), json!({"exit": c2, "got_len": o2.len(), "want_len": body.len()}));
                        }
                    }
                }
            }
            _ => {
                if let Some((code, out, _)) = self.cli(&["version", &dir], None) {
                    if code != 0 || serde_json::from_slice::<Value>(&out).ok().and_then(|v| v.get("version").cloned()).is_none() {
                        self.find(&["C13"], "cli-version/failed".into(), json!({"exit": code, "out": String::from_utf8_lossy(&out)}));
                    }
                }
            }
        }
        Ok(())
    }

    fn misc(&mut self) -> R<()> {
        match self.rng().below(8) {
            0 => {
                self.exchange(&Req::new("GET", "/version"), Class::Ok2xx, "GET-version", "valid", true)?;
            }
            1 => {
                let (m, p) = *self.rng().pick(&[("PUT", "/a"), ("PATCH", "/a"), ("OPTIONS", "/"), ("HEAD", "/nothing"), ("PUT", "/cas"), ("DELETE", "/"), ("GET", "/cas"), ("GET", "/import"), ("TRACE", "/a")]);
                self.exchange(&Req::new(m, p), Class::Client4xx, "other", "unsupported-method-or-path", false)?;
            }
            2 => {
                // broken HTTP: nothing required of the answer, but the server must survive
                let raw: &[u8] = *self.rng().pick(&[&b"GARBAGE\r\n\r\n"[..], b"GET / HTTP/9.9\r\n\r\n", b"GET /\r\n\r\n", b"POST /a HTTP/1.1\r\nno-colon-header\r\n\r\n", b"\x00\x01\x02\r\n\r\n", b"GET /a b HTTP/1.1\r\n\r\n"]);
                self.r.step += 1;
                if let Ok(mut c) = Conn::open(&self.sock) {
                    let _ = c.send(raw);
                    let _ = c.response(Duration::from_secs(2));
                }
                *self.r.res.counters.entry("http.broken_requests".into()).or_insert(0) += 1;
                self.exchange(&Req::new("GET", "/version"), Class::Ok2xx, "GET-version", "after-broken-http", false)?;
            }
            3 => {
                // non-ASCII path bytes
                let mut raw = b"POST /caf".to_vec();
                raw.extend_from_slice(&[0xc3, 0xa9]);
                raw.extend_from_slice(b" HTTP/1.1\r\nHost: x\r\nContent-Length: 0\r\n\r\n");
                self.r.step += 1;
                if let Ok(mut c) = Conn::open(&self.sock) {
                    let _ = c.send(&raw);
                    if let Ok(resp) = c.response(Duration::from_secs(5)) {
                        if resp.status == 200 {
                            if let Ok(f) = serde_json::from_slice::<Frame>(&resp.body) {
                                self.r.note_external_append(&f);
                            }
                        } else if resp.status / 100 == 5 {
                            self.find(&["C13"], "status-5xx/POST-topic/non-ascii-path".into(), json!({"status": resp.status}));
                        }
                    }
                }
            }
            4 => {
                // two requests on one connection
                self.r.step += 1;
                if let Ok(mut c) = Conn::open(&self.sock) {
                    let a = c.roundtrip(&Req::new("GET", "/version").bytes(), T);
                    let b = c.roundtrip(&Req::new("GET", "/version").bytes(), T);
                    if !matches!((&a, &b), (Ok(x), Ok(y)) if x.status == 200 && y.status == 200) {
                        self.find(&["C13"], "keepalive/second-request-failed".into(), json!({"a": a.map(|r| r.status).map_err(|e| e.to_string()), "b": b.map(|r| r.status).map_err(|e| e.to_string())}));
                    }
                }
            }
            5 => {
                let q = *self.rng().pick(&["?unknown=1", "?ttl=forever&ttl=ephemeral", "?context=0000000000000000000000000&x=%zz"]);
                // unknown / duplicate keys on append: whatever the answer, it must be a complete 2xx/4xx one
                if let Some(resp) = self.exchange(&Req::new("POST", &format!("/a{}", q)).body(b"q"), Class::OkOr4xx, "POST-topic", "odd-query", false)? {
                    if resp.status == 200 {
                        if let Ok(f) = serde_json::from_slice::<Frame>(&resp.body) {
                            self.r.note_external_append(&f);
                        }
                    }
                }
            }
            _ => {
                self.exchange(&Req::new("GET", "/version?x=1"), Class::Ok2xx, "GET-version", "with-query", false)?;
            }
        }
        self.state_check()
    }

    /// deterministic reproduction of the listed findings (and of three repaired defects), so that
    /// their verdict does not depend on what the generator happens to pick
    /// Requests without effect on the store, carrying header values that are legal on the wire (obs-text bytes
    /// >= 0x80, very long, empty) but hostile to code that decodes them: whatever the status, there must be a
    /// response (never a dropped connection, never a 5xx).
    fn hostile_headers(&mut self) -> R<()> {
        let values: [&[u8]; 7] = [b"\xff", b"text/event-stream\xe9", b"\x80\x81\x82", b"", b"text/event-stream; q=\xc3\x28", b"application/x-ndjson, \xfe", &[b'a'; 6000]];
        let names = ["Accept", "Content-Type", "Accept-Encoding", "User-Agent", "X-Custom", "Last-Event-ID", "Authorization", "xs-meta"];
        let some_id = self.pick_existing().map(id_str).unwrap_or_else(|| scru128::new().to_string());
        let target = match self.rng().below(7) {
            0 | 1 => "/".to_string(),
            2 => "/?limit=1".to_string(),
            3 => "/version".to_string(),
            4 => "/head/t".to_string(),
            5 => format!("/{}", some_id),
            _ => format!("/cas/{}", crate::cas::sha256_integrity(b"never stored")),
        };
        let mut req = Req::new("GET", &target);
        let mut desc = vec![];
        for _ in 0..1 + self.rng().below(2) {
            let n = *self.rng().pick(&names);
            let v = *self.rng().pick(&values);
            req = req.header(n, v);
            desc.push(n);
        }
        *self.r.res.counters.entry("http.hostile_header_requests".into()).or_insert(0) += 1;
        self.exchange(&req, Class::OkOr4xx, "GET-any", &format!("hostile-header-bytes:{}", desc.join("+")), true)?;
        Ok(())
    }

    pub fn fixed_probes(&mut self) -> R<()> {
        self.exchange(&Req::new("GET", "/").header("Accept", b"text/event-stream\xe9"), Class::OkOr4xx, "GET-cat", "accept-header-with-obs-text", false)?;
        let bogus = self.r.bogus_ctxs[0];
        self.exchange(&Req::new("POST", &format!("/a?context={}", id_str(bogus))).body(b"x"), Class::Client4xx, "POST-topic", "invalid-context", false)?;
        let c = self.r.ctxs[0];
        self.exchange(&Req::new("POST", &format!("/xs.context?context={}", id_str(c))), Class::Client4xx, "POST-topic", "xs.context-outside-zero", false)?;
        let f = Frame::builder("nul\0topic", ZERO_CONTEXT).id(scru128::new()).build();
        self.exchange(&Req::new("POST", "/import").body(&serde_json::to_vec(&f).unwrap()), Class::Client4xx, "POST-import", "nul-topic", false)?;
        self.exchange(&Req::new("POST", "/a").header("xs-meta", &[0xff, 0xfe]).body(b"x"), Class::Client4xx, "POST-topic", "xs-meta-non-ascii-header", false)?;
        let h = crate::cas::sha256_integrity(b"never stored");
        self.cas_get_expect(&h, None)?;
        self.exchange(&Req::new("GET", "/cas/sha256-"), Class::Client4xx, "GET-cas", "malformed-hash", false)?;
        self.state_check()
    }

    pub fn run(&mut self, n: usize) -> R<()> {
        self.register_ctx()?;
        self.register_ctx()?;
        self.fixed_probes()?;
        for _ in 0..n {
            let w = [22u32, 3, 14, 3, 10, 8, 8, 8, 10, 14, 3, 4, 8, 10, 6];
            match self.rng().weighted(&w) {
                0 => self.append_valid()?,
                1 => self.register_ctx()?,
                2 => self.append_invalid()?,
                3 => self.client_abort()?,
                4 => self.cas_ops()?,
                5 => self.get_item()?,
                6 => self.delete_item()?,
                7 => self.head_get()?,
                8 => self.import_ops()?,
                9 => self.cat()?,
                10 => self.follow_live()?,
                11 => self.head_follow()?,
                12 => self.misc()?,
                13 => self.cli_ops()?,
                _ => self.hostile_headers()?,
            }
            if self.r.res.inconclusive.is_some() {
                return Ok(());
            }
            if self.rng().chance(60) {
                self.r.sweep()?;
            }
        }
        self.r.sweep()?;
        Ok(())
    }
}

pub fn run_sequence(seed: u64, n: usize) -> HistoryResult {
    let mut h = match H::new(seed) {
        Ok(h) => h,
        Err(e) => return HistoryResult { inconclusive: Some(format!("session start: {}", e)), ..Default::default() },
    };
    let r = h.run(n);
    let mut res = std::mem::take(&mut h.r.res);
    match r {
        Ok(()) => {}
        Err(SessionError::Timeout(m)) => res.inconclusive = Some(format!("watchdog: {}", m)),
        Err(SessionError::Harness(m)) => res.inconclusive = Some(format!("harness: {}", m)),
        Err(SessionError::Died(m)) => {
            if m.contains("No space left") || m.contains("Cannot allocate") {
                res.inconclusive = Some(format!("resources: {}", m));
            } else {
                res.findings.push(finding(&["C13"], "server-process-died", json!({"message": m.chars().take(1500).collect::<String>()})));
            }
        }
    }
    res.hash = crate::report::fnv(&serde_json::to_string(&res.trace).unwrap_or_default());
    if let Some(s) = h.r.sess.take() {
        s.close();
    }
    rm_dir(&h.r.dir);
    res
}
