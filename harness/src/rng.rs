//! splitmix64 PRNG: tiny, seedable, no dependency.

#[derive(Clone, Debug)]
pub struct Rng(pub u64);

pub fn mix(seed: u64, k: u64) -> u64 {
    let mut r = Rng(seed ^ k.wrapping_mul(0xA24B_AED4_963E_E407).wrapping_add(0x9FB2_1C65_1E98_DF25));
    r.next();
    r.next()
}

impl Rng {
    pub fn new(seed: u64) -> Self {
        let mut r = Rng(seed);
        r.next();
        r
    }
    pub fn next(&mut self) -> u64 {
        self.0 = self.0.wrapping_add(0x9E37_79B9_7F4A_7C15);
        let mut z = self.0;
        z = (z ^ (z >> 30)).wrapping_mul(0xBF58_476D_1CE4_E5B9);
        z = (z ^ (z >> 27)).wrapping_mul(0x94D0_49BB_1331_11EB);
        z ^ (z >> 31)
    }
    /// uniform in 0..n (n > 0)
    pub fn below(&mut self, n: usize) -> usize {
        (self.next() % (n as u64)) as usize
    }
    pub fn range(&mut self, lo: u64, hi_incl: u64) -> u64 {
        lo + self.next() % (hi_incl - lo + 1)
    }
    pub fn chance(&mut self, permille: u64) -> bool {
        self.next() % 1000 < permille
    }
    pub fn pick<'a, T>(&mut self, xs: &'a [T]) -> &'a T {
        &xs[self.below(xs.len())]
    }
    pub fn shuffle<T>(&mut self, xs: &mut [T]) {
        for i in (1..xs.len()).rev() {
            let j = self.below(i + 1);
            xs.swap(i, j);
        }
    }
    /// weighted choice: returns index
    pub fn weighted(&mut self, w: &[u32]) -> usize {
        let total: u64 = w.iter().map(|x| *x as u64).sum();
        let mut r = self.next() % total.max(1);
        for (i, x) in w.iter().enumerate() {
            if r < *x as u64 {
                return i;
            }
            r -= *x as u64;
        }
        w.len() - 1
    }
    pub fn bytes(&mut self, n: usize) -> Vec<u8> {
        let mut v = Vec::with_capacity(n + 8);
        while v.len() < n {
            v.extend_from_slice(&self.next().to_le_bytes());
        }
        v.truncate(n);
        v
    }
}
