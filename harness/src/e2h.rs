//! C02 over the HTTP front end: parallel connections append, other connections poll with `last-id`
//! (NDJSON, and SSE using the `id:` field as the cursor) and one follows; same oracles as the in-process rounds.

use std::collections::BTreeSet;
use std::sync::atomic::{AtomicBool, Ordering};
use std::sync::{Arc, Mutex};
use std::time::{Duration, Instant};

use serde_json::{json, Value};

use xs::store::Frame;

use crate::http::{self, Conn, Req};
use crate::rng::Rng;
use crate::session::{rm_dir, work_dir, Session};

pub fn http_round(seed: u64) -> Value {
    let mut rng = Rng::new(seed);
    let dir = work_dir("e2h");
    let mut sess = match Session::spawn(&dir, true) {
        Ok(s) => s,
        Err(e) => return json!({"mode": "c02-http", "seed": seed, "violations": [], "inconclusive": format!("session: {}", e)}),
    };
    // jitter at the append sync points inside the server
    let permille = [0u64, 200, 500][rng.below(3)];
    let _ = sess.call(json!({"op": "hook", "seed": seed, "jitter": [permille, 300, ["append."]]}));
    let sock = dir.join("sock");
    let writers = 2 + rng.below(6);
    let per = 20 + rng.below(50);
    let acks: Arc<Mutex<Vec<(u128, u64, u64)>>> = Arc::new(Mutex::new(vec![]));
    let stop = Arc::new(AtomicBool::new(false));
    let base = Instant::now();
    let mut out: Vec<Value> = vec![];
    let viol = |out: &mut Vec<Value>, sig: &str, detail: Value| {
        if out.iter().filter(|v| v["signature"] == sig).count() < 2 {
            out.push(json!({"props": ["C02"], "signature": sig, "detail": detail}));
        }
    };
    // follower over HTTP (all contexts, from the beginning)
    let follower = {
        let sock = sock.clone();
        std::thread::spawn(move || {
            let mut ids: Vec<u128> = vec![];
            let Ok(mut c) = Conn::open(&sock) else { return (ids, "no-connection") };
            if c.send(&Req::new("GET", "/?follow=true").bytes()).is_err() {
                return (ids, "no-connection");
            }
            let Ok((_, headers)) = c.read_head(Duration::from_secs(20)) else { return (ids, "no-head") };
            let r = c.read_body(&headers, Duration::from_secs(40), |b| b.windows(10).any(|w| w == b"\"sentinel\""));
            if let Ok((body, _, _)) = r {
                for v in http::ndjson(&body) {
                    if let Ok(f) = serde_json::from_value::<Frame>(v) {
                        if f.topic != "xs.threshold" {
                            ids.push(f.id.to_u128());
                        }
                    }
                }
            }
            (ids, "ok")
        })
    };
    std::thread::sleep(Duration::from_millis(10));
    // pollers: NDJSON and SSE (cursor taken from the `id:` field)
    let mut pollers = vec![];
    for (pi, sse) in [(0, false), (1, true), (2, false)] {
        let sock = sock.clone();
        let stop = stop.clone();
        pollers.push(std::thread::spawn(move || {
            let mut last: Option<String> = None;
            let mut seq: Vec<u128> = vec![];
            let mut stop_at: Option<Instant> = None;
            let limit = if pi == 2 { "&limit=5" } else { "" };
            loop {
                let stopping = stop.load(Ordering::SeqCst);
                if stopping && stop_at.is_none() {
                    stop_at = Some(Instant::now());
                }
                if stop_at.map(|t| t.elapsed() > Duration::from_secs(8)).unwrap_or(false) || seq.len() > 100_000 {
                    break;
                }
                let target = match &last {
                    Some(l) => format!("/?last-id={}{}", l, limit),
                    None => format!("/?x=1{}", limit),
                };
                let mut req = Req::new("GET", &target);
                if sse {
                    req = req.header("Accept", b"text/event-stream");
                }
                let Ok(resp) = http::once(&sock, &req, Duration::from_secs(20)) else { break };
                let batch: Vec<String> = if sse {
                    http::sse(&resp.body).into_iter().map(|e| e.0).collect()
                } else {
                    http::ndjson(&resp.body).into_iter().filter_map(|v| v["id"].as_str().map(|s| s.to_string())).collect()
                };
                if let Some(l) = batch.last() {
                    last = Some(l.clone());
                }
                let n = batch.len();
                for b in batch {
                    if let Ok(id) = b.parse::<scru128::Scru128Id>() {
                        seq.push(id.to_u128());
                    }
                }
                if stopping && n == 0 {
                    break;
                }
                if n == 0 {
                    std::thread::sleep(Duration::from_millis(1));
                }
            }
            (seq, sse)
        }));
    }
    let mut ws = vec![];
    for w in 0..writers {
        let sock = sock.clone();
        let acks = acks.clone();
        ws.push(std::thread::spawn(move || {
            for s in 0..per {
                let body = format!("w{} s{}", w, s);
                let call = base.elapsed().as_micros() as u64;
                if let Ok(resp) = http::once(&sock, &Req::new("POST", &format!("/t{}", w % 2)).body(body.as_bytes()), Duration::from_secs(30)) {
                    let ret = base.elapsed().as_micros() as u64;
                    if let Ok(f) = serde_json::from_slice::<Frame>(&resp.body) {
                        acks.lock().unwrap().push((f.id.to_u128(), call, ret));
                    }
                }
            }
        }));
    }
    for h in ws {
        let _ = h.join();
    }
    let sentinel = http::once(&sock, &Req::new("POST", "/sentinel"), Duration::from_secs(30)).ok().and_then(|r| serde_json::from_slice::<Frame>(&r.body).ok());
    stop.store(true, Ordering::SeqCst);
    let mut acked: Vec<u128> = acks.lock().unwrap().iter().map(|a| a.0).collect();
    if let Some(s) = &sentinel {
        acked.push(s.id.to_u128());
    }
    acked.sort();
    // all stored ids (xs.start etc. included) for the pollers' expectation
    let all: Vec<u128> = sess.call(json!({"op": "read_sync", "digest": true})).map(|v| crate::model::parse_pairs(&v["frames"]).into_iter().map(|p| p.0).collect()).unwrap_or_default();
    let mut polls = 0u64;
    for p in pollers {
        let (seq, sse) = p.join().unwrap_or((vec![], false));
        polls += 1;
        let d = json!({"rendering": if sse { "sse" } else { "ndjson" }, "received": seq.len()});
        if seq.windows(2).any(|w| w[1] <= w[0]) {
            viol(&mut out, if seq.iter().collect::<BTreeSet<_>>().len() != seq.len() { "http-poller/frame-seen-twice" } else { "http-poller/ids-not-strictly-increasing" }, d.clone());
        }
        let got: BTreeSet<u128> = seq.iter().copied().collect();
        let missing: Vec<u128> = all.iter().copied().filter(|i| !got.contains(i)).collect();
        if !missing.is_empty() {
            viol(&mut out, "http-poller/acknowledged-frames-never-seen-by-last-id-polling", json!({"poller": d, "missing_count": missing.len(), "stored": all.len()}));
        }
    }
    let (fids, how) = follower.join().unwrap_or((vec![], "panic"));
    if let Some(w) = fids.windows(2).find(|w| w[1] <= w[0]) {
        viol(&mut out, "http-follower/ids-not-increasing", json!({"pair": [crate::model::id_str(w[0]), crate::model::id_str(w[1])]}));
    }
    let fset: BTreeSet<u128> = fids.iter().copied().collect();
    let fmissing = acked.iter().filter(|i| !fset.contains(i)).count();
    let mut inconclusive = Value::Null;
    if how != "ok" {
        inconclusive = json!(format!("http follower: {}", how));
    } else if fmissing > 0 && sentinel.as_ref().map(|s| fset.contains(&s.id.to_u128())).unwrap_or(false) {
        viol(&mut out, "http-follower/acknowledged-frame-never-delivered", json!({"missing": fmissing, "received": fids.len()}));
    }
    let overlapped = {
        let mut a = acks.lock().unwrap().clone();
        a.sort_by_key(|x| x.1);
        a.windows(2).filter(|w| w[1].1 < w[0].2).count()
    };
    sess.close();
    rm_dir(&dir);
    json!({
        "mode": "c02-http",
        "seed": seed,
        "config": {"writers": writers, "per_writer": per, "transport": "http"},
        "frames": acked.len(),
        "polls": polls,
        "overlapping_appends": overlapped,
        "live_frames": fids.len(),
        "class": format!("http{}x{}", writers, per),
        "violations": out,
        "inconclusive": inconclusive,
        "nontrivial": overlapped >= 2,
        "http_round": true,
    })
}

/// C03 over the HTTP front end: a follower whose history replay is held up (the client does not read while a
/// history larger than every buffer between store and socket is being sent), frames appended meanwhile through
/// other connections, then the stream is drained. Exactly-once / order / threshold oracles over what arrived.
pub fn http_follow_round(seed: u64) -> Value {
    let mut rng = Rng::new(seed);
    let dir = work_dir("e2hf");
    let mut sess = match Session::spawn(&dir, true) {
        Ok(s) => s,
        Err(e) => return json!({"mode": "c03-http", "seed": seed, "violations": [], "inconclusive": format!("session: {}", e)}),
    };
    let sock = dir.join("sock");
    let mut out: Vec<Value> = vec![];
    let viol = |out: &mut Vec<Value>, sig: &str, detail: Value| {
        if out.iter().filter(|v| v["signature"] == sig).count() < 2 {
            out.push(json!({"props": ["C03"], "signature": sig, "detail": detail}));
        }
    };
    let hist_n = [300u64, 1500, 3000][rng.below(3)];
    let size = [200u64, 1000, 2000][rng.below(3)];
    let sse = rng.chance(300);
    let inconclusive = |m: String| json!({"mode": "c03-http", "seed": seed, "violations": [], "inconclusive": m});
    let v = match sess.call_t(json!({"op": "bulk", "n": hist_n, "size": size, "tag": 3, "topic": "hist"}), Duration::from_secs(120)) {
        Ok(v) => v,
        Err(e) => return inconclusive(format!("bulk: {}", e)),
    };
    let hist: Vec<u128> = crate::model::parse_pairs(&v["ok"]).into_iter().map(|p| p.0).collect();
    // the follower: request sent, head read, body left unread
    let Ok(mut conn) = Conn::open(&sock) else { return inconclusive("no connection".into()) };
    let mut req = Req::new("GET", "/?follow=true");
    if sse {
        req = req.header("Accept", b"text/event-stream");
    }
    if conn.send(&req.bytes()).is_err() {
        return inconclusive("send failed".into());
    }
    let Ok((status, headers)) = conn.read_head(Duration::from_secs(20)) else { return inconclusive("no response head".into()) };
    if status != 200 {
        return inconclusive(format!("status {}", status));
    }
    std::thread::sleep(Duration::from_millis(20 + rng.below(60) as u64));
    // appends while the replay is (for the larger histories) still held up
    let n_live = 5 + rng.below(20);
    let mut acked: Vec<(u128, bool)> = vec![];
    for i in 0..n_live {
        let eph = i % 4 == 3;
        let target = if eph { "/live?ttl=ephemeral".to_string() } else { "/live".to_string() };
        if let Ok(resp) = http::once(&sock, &Req::new("POST", &target).body(format!("live {}", i).as_bytes()), Duration::from_secs(30)) {
            if let Ok(f) = serde_json::from_slice::<Frame>(&resp.body) {
                acked.push((f.id.to_u128(), eph));
            }
        }
    }
    // the end marker is appended only once the client has seen the threshold, i.e. when the stream is in its live
    // phase for certain: everything acknowledged before it must arrive before it
    let mut sentinel: Option<Frame> = None;
    let mut sentinel_tried = false;
    let sock2 = sock.clone();
    let r = conn.read_body(&headers, Duration::from_secs(60), |b| {
        if !sentinel_tried {
            if b.windows(12).any(|w| w == b"xs.threshold") {
                sentinel_tried = true;
                sentinel = http::once(&sock2, &Req::new("POST", "/sentinel"), Duration::from_secs(30)).ok().and_then(|r| serde_json::from_slice::<Frame>(&r.body).ok());
            }
            return sentinel_tried && sentinel.is_none();
        }
        match &sentinel {
            Some(s) => {
                let id = s.id.to_string();
                b.len() >= id.len() && b[b.len().saturating_sub(4096)..].windows(id.len()).any(|w| w == id.as_bytes())
            }
            None => true,
        }
    });
    let Ok((body, _, _)) = r else { return inconclusive("stream read failed".into()) };
    if !sentinel_tried {
        // no threshold within 60 s
        let n = if sse { http::sse(&body).len() } else { http::ndjson(&body).len() };
        sess.close();
        rm_dir(&dir);
        return if n as u64 >= hist_n {
            json!({"mode": "c03-http", "seed": seed, "frames": n, "violations": [{"props": ["C03"], "signature": "http-follow/no-threshold-after-the-history", "detail": {"history": hist_n, "received": n}}], "inconclusive": null, "nontrivial": true, "http_follow_round": true})
        } else {
            inconclusive(format!("history not replayed within 60 s ({} of {})", n, hist_n))
        };
    }
    let Some(sentinel) = sentinel else { return inconclusive("sentinel append failed".into()) };
    let frames: Vec<Frame> = if sse {
        http::sse(&body).into_iter().filter_map(|e| serde_json::from_value::<Frame>(e.1).ok()).collect()
    } else {
        http::ndjson(&body).into_iter().filter_map(|v| serde_json::from_value::<Frame>(v).ok()).collect()
    };
    let d = json!({"history": hist_n, "pad": size, "rendering": if sse { "sse" } else { "ndjson" }, "appended_meanwhile": acked.len(), "received": frames.len()});
    let mut inconc = Value::Null;
    if !frames.iter().any(|f| f.id == sentinel.id) {
        inconc = json!("sentinel not received within 60 s");
    } else {
        let thresholds = frames.iter().filter(|f| f.topic == "xs.threshold").count();
        if thresholds != 1 {
            viol(&mut out, "http-follow/threshold-count-wrong", json!({"round": d, "thresholds": thresholds}));
        }
        let real: Vec<u128> = frames.iter().filter(|f| f.topic != "xs.threshold" && f.topic != "xs.pulse").map(|f| f.id.to_u128()).collect();
        if real.windows(2).any(|w| w[1] <= w[0]) {
            let set: BTreeSet<u128> = real.iter().copied().collect();
            viol(&mut out, if set.len() != real.len() { "http-follow/frame-delivered-twice" } else { "http-follow/ids-not-increasing" }, json!({"round": d}));
        }
        let got: BTreeSet<u128> = real.iter().copied().collect();
        let missing_hist = hist.iter().filter(|i| !got.contains(i)).count();
        if missing_hist > 0 {
            viol(&mut out, "http-follow/historical-frame-not-delivered", json!({"round": d, "missing": missing_hist}));
        }
        let missing_live: Vec<String> = acked.iter().filter(|(i, _)| !got.contains(i)).map(|(i, e)| format!("{}{}", crate::model::id_str(*i), if *e { " (ephemeral)" } else { "" })).collect();
        if !missing_live.is_empty() {
            viol(&mut out, "http-follow/acknowledged-frame-appended-during-replay-not-delivered", json!({"round": d, "missing": missing_live}));
        }
    }
    // was the replay really still going on when the appends were made? (frames that arrived after the threshold)
    let th_pos = frames.iter().position(|f| f.topic == "xs.threshold").unwrap_or(frames.len());
    let after_threshold = frames[th_pos.min(frames.len())..].iter().filter(|f| acked.iter().any(|a| a.0 == f.id.to_u128())).count();
    sess.close();
    rm_dir(&dir);
    json!({
        "mode": "c03-http",
        "seed": seed,
        "config": d,
        "frames": frames.len(),
        "window_hits": acked.len(),
        "delivered_from_window": after_threshold,
        "class": format!("http-follow/{}x{}/{}", hist_n, size, if sse { "sse" } else { "ndjson" }),
        "shape": format!("http-follow/hist={}/{}", hist_n, if sse { "sse" } else { "ndjson" }),
        "violations": out,
        "inconclusive": inconc,
        "nontrivial": !acked.is_empty(),
        "http_follow_round": true,
    })
}

/// C11 over the HTTP front end: follow with a heartbeat and a limit that history alone does not reach; pulses flow
/// for a while, then the remaining frames are appended. Exactly the first n real frames, synthetic frames not
/// counted, and the response ends.
pub fn http_limit_round(seed: u64) -> Value {
    let mut rng = Rng::new(seed);
    let dir = work_dir("e2hl");
    let mut sess = match Session::spawn(&dir, true) {
        Ok(s) => s,
        Err(e) => return json!({"mode": "c11-http", "seed": seed, "violations": [], "inconclusive": format!("session: {}", e)}),
    };
    let sock = dir.join("sock");
    let mut out: Vec<Value> = vec![];
    let inconclusive = |m: String| json!({"mode": "c11-http", "seed": seed, "violations": [], "inconclusive": m});
    let hist = rng.below(6);
    let extra = 1 + rng.below(4);
    let n = hist + extra;
    let pulse_ms = [10u64, 25, 60][rng.below(3)];
    let sse = rng.chance(300);
    let in_ctx = rng.chance(400);
    let ctx: Option<String> = if in_ctx {
        http::once(&sock, &Req::new("POST", "/xs.context"), Duration::from_secs(20)).ok().and_then(|r| serde_json::from_slice::<Frame>(&r.body).ok()).map(|f| f.id.to_string())
    } else {
        None
    };
    let post = |i: usize| -> Option<Frame> {
        let target = match &ctx {
            Some(c) => format!("/m?context={}", c),
            None => "/m".to_string(),
        };
        http::once(&sock, &Req::new("POST", &target).body(format!("m{}", i).as_bytes()), Duration::from_secs(20)).ok().and_then(|r| serde_json::from_slice::<Frame>(&r.body).ok())
    };
    let mut want: Vec<String> = vec![];
    for i in 0..hist {
        match post(i) {
            Some(f) => want.push(f.id.to_string()),
            None => return inconclusive("append failed".into()),
        }
    }
    // xs.start and (in the zero context) the registration frame are history too: start after the newest of them
    let last = sess.call(json!({"op": "read_sync", "digest": true})).ok().map(|v| crate::model::parse_pairs(&v["frames"])).unwrap_or_default();
    let before_hist = last.iter().map(|p| crate::model::id_str(p.0)).filter(|i| !want.contains(i)).last();
    let mut q = vec![format!("follow={}", pulse_ms), format!("limit={}", n)];
    if let Some(l) = &before_hist {
        q.push(format!("last-id={}", l));
    }
    if let Some(c) = &ctx {
        q.push(format!("context-id={}", c));
    }
    // some rounds go through the client library (what `xs cat --pulse <ms> --limit n` uses) instead of raw HTTP
    let via_client = !sse && (seed >> 7) % 5 < 2;
    let mut client_task: Option<std::thread::JoinHandle<(Vec<u8>, bool)>> = None;
    let mut conn_and_headers = None;
    if via_client {
        let addr = dir.to_string_lossy().to_string();
        let opts = xs::store::ReadOptions::builder()
            .follow(xs::store::FollowOption::WithHeartbeat(Duration::from_millis(pulse_ms)))
            .limit(n)
            .maybe_last_id(before_hist.as_ref().and_then(|l| l.parse::<scru128::Scru128Id>().ok()))
            .maybe_context_id(ctx.as_ref().and_then(|c| c.parse::<scru128::Scru128Id>().ok()))
            .build();
        client_task = Some(std::thread::spawn(move || {
            let rt = tokio::runtime::Builder::new_current_thread().enable_all().build().unwrap();
            rt.block_on(async move {
                let Ok(mut rx) = xs::client::cat(&addr, opts, false).await else { return (vec![], false) };
                let mut buf = vec![];
                loop {
                    match tokio::time::timeout(Duration::from_secs(10), rx.recv()).await {
                        Ok(Some(b)) => buf.extend_from_slice(&b),
                        Ok(None) => return (buf, true),
                        Err(_) => return (buf, false),
                    }
                }
            })
        }));
        std::thread::sleep(Duration::from_millis(50));
    } else {
        let Ok(mut conn) = Conn::open(&sock) else { return inconclusive("no connection".into()) };
        let mut req = Req::new("GET", &format!("/?{}", q.join("&")));
        if sse {
            req = req.header("Accept", b"text/event-stream");
        }
        if conn.send(&req.bytes()).is_err() {
            return inconclusive("send failed".into());
        }
        let Ok((status, headers)) = conn.read_head(Duration::from_secs(20)) else { return inconclusive("no response head".into()) };
        if status != 200 {
            return inconclusive(format!("status {}", status));
        }
        conn_and_headers = Some((conn, headers));
    }
    // let several heartbeats pass, then append the rest (and two more that must not be delivered)
    std::thread::sleep(Duration::from_millis(pulse_ms * (3 + rng.below(4) as u64)));
    for i in 0..extra + 2 {
        match post(hist + i) {
            Some(f) => {
                if i < extra {
                    want.push(f.id.to_string());
                }
            }
            None => return inconclusive("append failed".into()),
        }
        std::thread::sleep(Duration::from_millis(rng.below(30) as u64));
    }
    let (body, ended) = if let Some(t) = client_task {
        t.join().unwrap_or((vec![], false))
    } else {
        let (mut conn, headers) = conn_and_headers.unwrap();
        match conn.read_body(&headers, Duration::from_secs(10), |_| false) {
            Ok((b, complete, _)) => (b, complete),
            Err(_) => (vec![], false),
        }
    };
    let frames: Vec<Frame> = if sse { http::sse(&body).into_iter().filter_map(|e| serde_json::from_value::<Frame>(e.1).ok()).collect() } else { http::ndjson(&body).into_iter().filter_map(|v| serde_json::from_value::<Frame>(v).ok()).collect() };
    let real: Vec<String> = frames.iter().filter(|f| f.topic != "xs.pulse" && f.topic != "xs.threshold").map(|f| f.id.to_string()).collect();
    let pulses = frames.iter().filter(|f| f.topic == "xs.pulse").count();
    let d = json!({"history": hist, "limit": n, "pulse_ms": pulse_ms, "rendering": if sse { "sse" } else { "ndjson" }, "through": if via_client { "client library" } else { "raw http" }, "scoped": in_ctx, "real": real.len(), "pulses": pulses, "ended": ended});
    let mut inconc = Value::Null;
    if !ended {
        if real.len() >= n {
            out.push(json!({"props": ["C11"], "signature": "http-limit/stream-not-closed-after-the-nth-frame", "detail": d}));
        } else {
            inconc = json!("response neither ended nor delivered n frames within 10 s");
        }
    } else if real != want {
        let sig = if real.len() < want.len() && real[..] == want[..real.len()] { "http-limit/response-ended-before-the-nth-frame" } else if real.len() > want.len() { "http-limit/more-than-n-frames" } else { "http-limit/delivered-frames-are-not-the-first-n-matching" };
        out.push(json!({"props": ["C11"], "signature": sig, "detail": {"round": d, "got": real, "want": want}}));
    }
    sess.close();
    rm_dir(&dir);
    json!({
        "mode": "c11-http",
        "seed": seed,
        "config": d,
        "frames": real.len(),
        "class": format!("http-limit/{}/{}", n, pulse_ms),
        "shape": format!("http-limit/hist={}/n={}/pulse={}/{}{}", hist, n, pulse_ms, if sse { "sse" } else { "ndjson" }, if in_ctx { "/ctx" } else { "" }),
        "split": format!("hist={}/live={}", hist, extra),
        "violations": out,
        "inconclusive": inconc,
        "nontrivial": pulses > 0,
        "http_limit_round": true,
        "via_client": via_client,
        "pulses_before_the_nth_frame": pulses,
    })
}

/// C03 through the command-line client: `xs cat -f` whose stdout is not read for a while (a slow consumer on a
/// pipe), a history larger than the pipe and the client's queue, frames appended meanwhile; then everything is
/// drained. Every frame exactly once, in order.
pub fn cli_follow_round(seed: u64) -> Value {
    use std::io::{BufRead, BufReader};
    use std::process::{Command, Stdio};
    let mut rng = Rng::new(seed);
    let dir = work_dir("e2hc");
    let mut sess = match Session::spawn(&dir, true) {
        Ok(s) => s,
        Err(e) => return json!({"mode": "c03-cli", "seed": seed, "violations": [], "inconclusive": format!("session: {}", e)}),
    };
    let sock = dir.join("sock");
    let inconclusive = |m: String| json!({"mode": "c03-cli", "seed": seed, "violations": [], "inconclusive": m});
    let Some(bin) = crate::session::self_exe().parent().map(|p| p.join("xs-real")).filter(|b| b.exists()) else { return inconclusive("xs-real binary not built".into()) };
    let hist_n = [200u64, 400, 800][rng.below(3)];
    let size = [700u64, 1000, 2500][rng.below(3)];
    let v = match sess.call_t(json!({"op": "bulk", "n": hist_n, "size": size, "tag": 9, "topic": "hist"}), Duration::from_secs(120)) {
        Ok(v) => v,
        Err(e) => return inconclusive(format!("bulk: {}", e)),
    };
    let mut want: Vec<String> = crate::model::parse_pairs(&sess.call(json!({"op": "read_sync", "digest": true})).map(|v| v["frames"].clone()).unwrap_or(Value::Null)).into_iter().map(|p| crate::model::id_str(p.0)).collect();
    let _ = v;
    let mut child = match Command::new("timeout").arg("-k").arg("2").arg("90").arg(&bin).arg("cat").arg(dir.to_string_lossy().to_string()).arg("-f").stdin(Stdio::null()).stdout(Stdio::piped()).stderr(Stdio::null()).spawn() {
        Ok(c) => c,
        Err(e) => return inconclusive(format!("spawn: {}", e)),
    };
    let stdout = child.stdout.take().unwrap();
    // nobody reads for a while
    std::thread::sleep(Duration::from_millis(800 + rng.below(1200) as u64));
    let mut acked = 0;
    for i in 0..3 + rng.below(6) {
        if let Ok(resp) = http::once(&sock, &Req::new("POST", "/live").body(format!("live {}", i).as_bytes()), Duration::from_secs(30)) {
            if let Ok(f) = serde_json::from_slice::<Frame>(&resp.body) {
                want.push(f.id.to_string());
                acked += 1;
            }
        }
    }
    let (tx, rx) = std::sync::mpsc::channel::<String>();
    std::thread::spawn(move || {
        for l in BufReader::new(stdout).lines().map_while(Result::ok) {
            if tx.send(l).is_err() {
                break;
            }
        }
    });
    // drain until the stream has been quiet for a while after everything expected has (or should have) arrived
    let mut lines: Vec<String> = vec![];
    let t0 = Instant::now();
    let mut sentinel_id: Option<String> = None;
    loop {
        match rx.recv_timeout(Duration::from_millis(1500)) {
            Ok(l) => {
                let done = sentinel_id.as_ref().map(|s| l.contains(s.as_str())).unwrap_or(false);
                lines.push(l);
                if done {
                    break;
                }
            }
            Err(_) => {
                // quiet: the client has caught up with what exists; now append the end marker (live phase for certain)
                if sentinel_id.is_none() {
                    match http::once(&sock, &Req::new("POST", "/sentinel"), Duration::from_secs(30)).ok().and_then(|r| serde_json::from_slice::<Frame>(&r.body).ok()) {
                        Some(f) => {
                            want.push(f.id.to_string());
                            sentinel_id = Some(f.id.to_string());
                        }
                        None => break,
                    }
                } else {
                    break;
                }
            }
        }
        if t0.elapsed() > Duration::from_secs(60) {
            break;
        }
    }
    let _ = child.kill();
    let _ = child.wait();
    let frames: Vec<Frame> = lines.iter().filter_map(|l| serde_json::from_str::<Frame>(l).ok()).collect();
    let unparsable = lines.iter().filter(|l| !l.trim().is_empty() && serde_json::from_str::<Value>(l).is_err()).count();
    let real: Vec<String> = frames.iter().filter(|f| f.topic != "xs.threshold" && f.topic != "xs.pulse").map(|f| f.id.to_string()).collect();
    let d = json!({"history": hist_n, "pad": size, "appended_meanwhile": acked, "received": real.len(), "expected": want.len()});
    let mut out: Vec<Value> = vec![];
    let mut inconc = Value::Null;
    let got_sentinel = sentinel_id.as_ref().map(|s| real.contains(s)).unwrap_or(false);
    if !got_sentinel {
        inconc = json!("the end marker did not come out of the command-line client within its watchdog");
    } else if unparsable > 0 {
        out.push(json!({"props": ["C03", "C12"], "signature": "cli-follow/output-line-is-not-a-frame", "detail": {"round": d, "unparsable_lines": unparsable}}));
    } else if real != want {
        let set: BTreeSet<&String> = real.iter().collect();
        let sig = if set.len() != real.len() { "cli-follow/frame-printed-twice" } else if want.iter().any(|w| !set.contains(w)) { "cli-follow/frame-lost-between-server-and-stdout" } else { "cli-follow/frames-out-of-order" };
        let missing: Vec<&String> = want.iter().filter(|w| !set.contains(w)).take(5).collect();
        out.push(json!({"props": ["C03"], "signature": sig, "detail": {"round": d, "first_missing": missing}}));
    }
    sess.close();
    rm_dir(&dir);
    json!({
        "mode": "c03-cli",
        "seed": seed,
        "config": d,
        "frames": real.len(),
        "window_hits": acked,
        "class": format!("cli-follow/{}x{}", hist_n, size),
        "shape": format!("cli-follow/hist={}x{}", hist_n, size),
        "violations": out,
        "inconclusive": inconc,
        "nontrivial": acked > 0,
        "cli_follow_round": true,
    })
}
