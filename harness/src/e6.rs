//! E6 — codec round-trip generator (C12): TTL and ReadOptions spellings, Frame JSON, and the
//! "nothing accepted can poison later reads" leg through a real store in a child process.

use std::time::Duration;

use scru128::Scru128Id;
use serde_json::{json, Value};

use xs::store::{FollowOption, Frame, ReadOptions, TTL, ZERO_CONTEXT};

use crate::gen;
use crate::report::{fnv, Report};
use crate::rng::{mix, Rng};
use crate::session::{rm_dir, work_dir, Session};

fn gen_ttl(rng: &mut Rng) -> TTL {
    match rng.below(8) {
        0 => TTL::Forever,
        1 => TTL::Ephemeral,
        2 => TTL::Time(Duration::from_millis(*rng.pick(&[0u64, 1, 999, 1000, 1001, 60_000, u32::MAX as u64, u64::MAX / 2, u64::MAX - 1, u64::MAX]))),
        3 | 4 => TTL::Time(Duration::from_millis(rng.next() >> rng.below(64))),
        5 => TTL::Head(*rng.pick(&[1u32, 2, 3, 9, 10, 255, 256, 65535, u32::MAX - 1, u32::MAX])),
        _ => TTL::Head(((rng.next() >> rng.below(40)) as u32).max(1)),
    }
}

const TTL_NEIGHBOURS: &[&str] = &[
    "head:0", "head:-1", "head:+5", "head:1.5", "head: 1", "head:1 ", " head:1", "head:", "head", "head:4294967296", "head:4294967295", "head:00", "head:01", "head:1e3", "head:0x10",
    "head:١", "Head:1", "HEAD:1", "time:", "time", "time:-1", "time:+5", "time:1.5", "time: 1", "time:1 ", "time:18446744073709551615", "time:18446744073709551616", "time:1e3",
    "time:00", "Time:1", "TIME:5", "forever", "Forever", "FOREVER", "forever ", " forever", "ephemeral", "Ephemeral", "ephemeral\n", "", " ", "null", "0", "1", "true", "time:9999999999999999999999",
    "head:99999999999", "time:٣", "time:１", "forever\0", "head:1\0", "time:1:2", "head:1:2", "temporary", "time=5", "head=5",
];

fn ttl_string(rng: &mut Rng) -> String {
    if rng.chance(500) {
        rng.pick::<&str>(TTL_NEIGHBOURS).to_string()
    } else {
        // mutate a valid spelling
        const ALPHA: &[&str] = &["time:", "head:", "forever", "ephemeral", "0", "1", "5", "9", "-", "+", ".", " ", ":", "e", "x", "\0", "٣", "%", "&", "=", "18446744073709551615", "4294967295"];
        let n = 1 + rng.below(4);
        (0..n).map(|_| *rng.pick::<&str>(ALPHA)).collect()
    }
}

fn urlenc(s: &str) -> String {
    let mut o = String::new();
    for b in s.bytes() {
        if b.is_ascii_alphanumeric() || b == b'-' || b == b'_' || b == b'.' || b == b'~' {
            o.push(b as char);
        } else {
            o.push_str(&format!("%{:02X}", b));
        }
    }
    o
}

fn gen_id(rng: &mut Rng) -> Scru128Id {
    match rng.below(5) {
        0 => ZERO_CONTEXT,
        1 => Scru128Id::from(u128::MAX >> 1),
        2 => scru128::new(),
        _ => Scru128Id::from(((rng.next() as u128) << 64 | rng.next() as u128) >> (1 + rng.below(60))),
    }
}

fn gen_opts(rng: &mut Rng) -> ReadOptions {
    let follow = match rng.below(6) {
        0 | 1 => FollowOption::Off,
        2 => FollowOption::On,
        3 => FollowOption::WithHeartbeat(Duration::from_millis(*rng.pick(&[0u64, 1, 5, 1000, 60_000, u64::MAX / 1000]))),
        _ => FollowOption::WithHeartbeat(Duration::from_millis(rng.next() >> (1 + rng.below(63)))),
    };
    ReadOptions::builder()
        .follow(follow)
        .tail(rng.chance(400))
        .maybe_last_id(if rng.chance(500) { Some(gen_id(rng)) } else { None })
        .maybe_limit(if rng.chance(500) { Some(*rng.pick(&[0usize, 1, 2, 100, usize::MAX, 1 << 32])) } else { None })
        .maybe_context_id(if rng.chance(500) { Some(gen_id(rng)) } else { None })
        .build()
}

fn opt_string(rng: &mut Rng) -> String {
    const KEYS: &[&str] = &["follow", "tail", "last-id", "limit", "context-id", "context", "last_id", "ttl", "x", ""];
    const VALS: &[&str] = &[
        "", "true", "false", "yes", "no", "0", "1", "-1", "5", "abc", "18446744073709551615", "18446744073709551616", "1.5", "+5", " 5", "0000000000000000000000000", "03gy4klv2h02u3x987n90p9hd",
        "zzzzzzzzzzzzzzzzzzzzzzzzz", "03GY4KLV2H02U3X987N90P9HD", "%00", "%ff", "%", "%zz", "&", "=", "日本", "null", "TRUE", "Yes",
    ];
    let n = rng.below(5);
    let mut parts = vec![];
    for _ in 0..n {
        let k = *rng.pick::<&str>(KEYS);
        match rng.below(6) {
            0 => parts.push(k.to_string()),
            _ => parts.push(format!("{}={}", k, *rng.pick::<&str>(VALS))),
        }
    }
    parts.join("&")
}

fn gen_hash(rng: &mut Rng) -> Option<ssri::Integrity> {
    let b = crate::cas::sha256_integrity(&rng.bytes(4));
    let s = match rng.below(7) {
        0 | 1 | 2 => return None,
        3 => b,
        4 => format!("sha512-{}", crate::session::b64(&rng.bytes(64))),
        5 => format!("{} sha512-{}", b, crate::session::b64(&rng.bytes(64))),
        _ => format!("sha1-{} {}", crate::session::b64(&rng.bytes(20)), b),
    };
    s.parse().ok()
}

fn gen_meta(rng: &mut Rng) -> Option<Value> {
    match rng.below(12) {
        0 | 1 => None,
        2 => Some(gen::nested(*rng.pick(&[1usize, 10, 64, 100, 120, 125, 126]), rng.chance(500))),
        3 => Some(json!({"big": "x".repeat(300 * 1024)})),
        4 => Some(json!([u64::MAX, i64::MIN, i64::MAX, 9007199254740993u64, -9007199254740993i64, 0, -0.0, 1.5, 1e308])),
        5 => Some(json!({"esc": "\u{0}\u{1}\u{1f}\"\\/\u{7f}\u{80}\u{2028}\u{2029}\u{fffd}\u{ffff}\u{10000}\u{10ffff}"})),
        _ => gen::meta(rng).filter(|v| !v.is_null()),
    }
}

fn gen_topic(rng: &mut Rng) -> String {
    match rng.below(6) {
        0 => gen::json_string(rng),
        1 => gen::long_topic(),
        _ => rng.pick::<&str>(gen::TOPIC_POOL).to_string(),
    }
}

pub fn gen_frame(rng: &mut Rng) -> Frame {
    Frame::builder(gen_topic(rng), gen_id(rng))
        .id(gen_id(rng))
        .maybe_hash(gen_hash(rng))
        .maybe_meta(gen_meta(rng))
        .maybe_ttl(if rng.chance(700) { Some(gen_ttl(rng)) } else { None })
        .build()
}

fn catch<T>(f: impl FnOnce() -> T) -> Result<T, String> {
    std::panic::catch_unwind(std::panic::AssertUnwindSafe(f)).map_err(|e| {
        e.downcast_ref::<String>().cloned().or_else(|| e.downcast_ref::<&str>().map(|s| s.to_string())).unwrap_or_else(|| "panic".into())
    })
}

pub fn run(tier: &str, seed: u64) -> i32 {
    let t = tier == "thorough";
    let mut rep = Report::new(
        "C12",
        tier,
        seed,
        "exploration",
        "generated TTL values and grammar neighbours through both spellings (query string, JSON); ReadOptions values through to_query_string -> from_query and random strings over the option alphabet (no panic); Frames from arbitrary topic / meta (nesting up to 200, boundary integers, escapes, 300 KiB strings) / hash / ttl through JSON, then append/import -> get/read_sync/reopen on a real store in a child process (a decode panic in a later read is the 'poison' witness); distinct by value hash; non-trivial = every case except plain forever/none TTLs and empty option sets",
    );
    rep.assumptions = vec![
        "floats are restricted to values whose shortest decimal form parses back exactly (serde_json without float_roundtrip may be 1 ULP off; outside the quantifier)".into(),
        "sub-millisecond Durations and head:0 built through the Rust API are not asserted (not reachable from any boundary)".into(),
    ];
    std::panic::set_hook(Box::new(|_| {}));
    let mut rng = Rng::new(mix(seed, 12));

    // --- TTL values -----------------------------------------------------------
    let n_ttl = if t { 400_000 } else { 60_000 };
    for _ in 0..n_ttl {
        let v = gen_ttl(&mut rng);
        rep.eval();
        rep.count("ttl.values", 1);
        if !matches!(v, TTL::Forever) {
            rep.nontrivial(fnv(&format!("ttl{:?}", v)));
        }
        let q = v.to_query();
        match catch(|| TTL::from_query(Some(&q))) {
            Ok(Ok(back)) if back == v => {}
            Ok(other) => rep.violation("C12/ttl/query-spelling-does-not-round-trip", json!({"value": format!("{:?}", v), "query": q, "parsed": format!("{:?}", other)})),
            Err(p) => rep.violation("C12/ttl/panic-in-from_query", json!({"query": q, "panic": p})),
        }
        let js = serde_json::to_string(&v).unwrap();
        match catch(|| serde_json::from_str::<TTL>(&js)) {
            Ok(Ok(back)) if back == v => {}
            Ok(other) => rep.violation("C12/ttl/json-spelling-does-not-round-trip", json!({"value": format!("{:?}", v), "json": js, "parsed": format!("{:?}", other.map_err(|e| e.to_string()))})),
            Err(p) => rep.violation("C12/ttl/panic-in-json", json!({"json": js, "panic": p})),
        }
    }
    // --- TTL strings near the grammar ----------------------------------------------
    let must_reject = ["head:0", "head:-1", "time:-1", "time:18446744073709551616", "head:4294967296", "Forever", "temporary", "", "head:", "time:", "time:1.5", "head:1.5"];
    for s in must_reject {
        rep.eval();
        let q = format!("ttl={}", urlenc(s));
        if let Ok(Ok(v)) = catch(|| TTL::from_query(Some(&q))) {
            rep.violation("C12/ttl/malformed-accepted", json!({"input": s, "parsed": format!("{:?}", v)}));
        }
        if let Ok(Ok(v)) = catch(|| serde_json::from_value::<TTL>(json!(s))) {
            rep.violation("C12/ttl/malformed-accepted", json!({"input": s, "parsed": format!("{:?}", v), "via": "json"}));
        }
    }
    let n_str = if t { 200_000 } else { 30_000 };
    for _ in 0..n_str {
        let s = ttl_string(&mut rng);
        rep.eval();
        rep.count("ttl.strings", 1);
        rep.nontrivial(fnv(&format!("ttls{}", s)));
        let q = format!("ttl={}", urlenc(&s));
        match catch(|| TTL::from_query(Some(&q))) {
            Err(p) => rep.violation("C12/ttl/panic-in-from_query", json!({"input": s, "panic": p})),
            Ok(Err(_)) => rep.count("ttl.strings_rejected", 1),
            Ok(Ok(v)) => {
                rep.count("ttl.strings_accepted", 1);
                if v == TTL::Head(0) {
                    rep.violation("C12/ttl/malformed-accepted", json!({"input": s, "parsed": "Head(0)"}));
                }
                // whatever was accepted must re-serialise to something that parses to the same value
                let q2 = v.to_query();
                if TTL::from_query(Some(&q2)).ok().as_ref() != Some(&v) {
                    rep.violation("C12/ttl/accepted-string-does-not-round-trip", json!({"input": s, "parsed": format!("{:?}", v), "reserialised": q2}));
                }
                let js = serde_json::to_string(&v).unwrap();
                if serde_json::from_str::<TTL>(&js).ok().as_ref() != Some(&v) {
                    rep.violation("C12/ttl/accepted-string-does-not-round-trip", json!({"input": s, "parsed": format!("{:?}", v), "json": js}));
                }
            }
        }
        // the JSON spelling and the query spelling accept the same strings
        let a = catch(|| TTL::from_query(Some(&q))).ok().and_then(|r| r.ok());
        let b = catch(|| serde_json::from_value::<TTL>(json!(s))).ok().and_then(|r| r.ok());
        if a != b && !s.is_empty() {
            rep.violation("C12/ttl/query-and-json-spellings-disagree", json!({"input": s, "query": format!("{:?}", a), "json": format!("{:?}", b)}));
        }
    }
    // --- ReadOptions -------------------------------------------------------------------
    let n_opt = if t { 400_000 } else { 60_000 };
    for _ in 0..n_opt {
        let o = gen_opts(&mut rng);
        rep.eval();
        rep.count("options.values", 1);
        if o != ReadOptions::default() {
            rep.nontrivial(fnv(&format!("opt{:?}", o)));
        }
        let q = o.to_query_string();
        match catch(|| ReadOptions::from_query(if q.is_empty() { None } else { Some(&q) })) {
            Ok(Ok(back)) if back == o => {}
            Ok(other) => rep.violation("C12/options/do-not-round-trip", json!({"options": format!("{:?}", o), "query": q, "parsed": format!("{:?}", other.map_err(|e| e.to_string()))})),
            Err(p) => rep.violation("C12/options/panic-in-from_query", json!({"query": q, "panic": p})),
        }
        // the client sends exactly this string (client/commands.rs); an empty string arrives as no query
        if q.is_empty() && o != ReadOptions::default() {
            rep.violation("C12/options/non-default-options-encode-to-nothing", json!({"options": format!("{:?}", o)}));
        }
    }
    for _ in 0..n_opt / 2 {
        let s = opt_string(&mut rng);
        rep.eval();
        rep.count("options.strings", 1);
        rep.nontrivial(fnv(&format!("opts{}", s)));
        match catch(|| ReadOptions::from_query(Some(&s))) {
            Err(p) => rep.violation("C12/options/panic-in-from_query", json!({"query": s, "panic": p})),
            Ok(Ok(o)) => {
                rep.count("options.strings_accepted", 1);
                // accepted: encoding it again and parsing gives the same options
                let q = o.to_query_string();
                let back = ReadOptions::from_query(if q.is_empty() { None } else { Some(&q) });
                if back.ok().as_ref() != Some(&o) {
                    rep.violation("C12/options/accepted-string-does-not-round-trip", json!({"query": s, "parsed": format!("{:?}", o), "reencoded": q}));
                }
            }
            Ok(Err(_)) => rep.count("options.strings_rejected", 1),
        }
    }
    for (bad, why) in [("last-id=xyz", "bad id"), ("limit=-1", "negative"), ("limit=18446744073709551616", "overflow"), ("follow=maybe", "unknown keyword"), ("context-id=nope", "bad id"), ("limit=1.5", "fraction")] {
        rep.eval();
        if let Ok(Ok(o)) = catch(|| ReadOptions::from_query(Some(bad))) {
            rep.violation("C12/options/malformed-accepted", json!({"query": bad, "why": why, "parsed": format!("{:?}", o)}));
        }
    }
    // --- Frames through JSON --------------------------------------------------------------
    let n_fr = if t { 60_000 } else { 8_000 };
    for _ in 0..n_fr {
        let f = gen_frame(&mut rng);
        rep.eval();
        rep.count("frames.json", 1);
        let bytes = serde_json::to_vec(&f).unwrap();
        rep.nontrivial(fnv(&String::from_utf8_lossy(&bytes[..bytes.len().min(4096)])));
        match catch(|| serde_json::from_slice::<Frame>(&bytes)) {
            Ok(Ok(back)) if back == f => {}
            Ok(Ok(back)) => rep.violation("C12/frame/json-does-not-parse-back-identical", json!({"frame": trim(&f), "back": trim(&back)})),
            Ok(Err(e)) => rep.violation("C12/frame/json-does-not-parse-back", json!({"frame": trim(&f), "error": e.to_string()})),
            Err(p) => rep.violation("C12/frame/panic", json!({"panic": p})),
        }
    }
    // --- Frames through a real store (poison leg) -----------------------------------------------
    let n_store = if t { 40 } else { 6 };
    for case in 0..n_store {
        store_leg(&mut rep, mix(seed, 7000 + case as u64), if t { 60 } else { 40 });
    }
    // --- the client's encoding against the server's parser, over the real HTTP path ----------------
    for case in 0..(if t { 6 } else { 1 }) {
        tcp_leg(&mut rep, mix(seed, 9300 + case as u64));
    }
    for case in 0..(if t { 12 } else { 3 }) {
        wire_leg(&mut rep, mix(seed, 9100 + case as u64), if t { 120 } else { 60 });
    }
    // --- Miri: the TTL codec under the undefined-behaviour interpreter (thorough tier) ----------------
    if t {
        miri_leg(&mut rep);
    }
    rep.require("ttl cases", rep.counters.get("ttl.values").copied().unwrap_or(0) > 0);
    rep.require("wire leg compared reads", rep.counters.get("wire.reads_compared").copied().unwrap_or(0) > 0);
    rep.require("store leg reached deep metas", rep.counters.get("store.deep_meta_cases").copied().unwrap_or(0) > 0);
    rep.require("store leg reopened", rep.counters.get("store.reopens").copied().unwrap_or(0) > 0);
    rep.finish()
}

fn trim(f: &Frame) -> Value {
    let s = serde_json::to_string(f).unwrap_or_default();
    if s.len() > 1500 {
        json!(format!("{}… ({} bytes)", s.chars().take(1500).collect::<String>(), s.len()))
    } else {
        serde_json::to_value(f).unwrap_or(Value::Null)
    }
}

/// append / import generated frames, then read everything back, reopen, read again.
fn store_leg(rep: &mut Report, seed: u64, n: usize) {
    let mut rng = Rng::new(seed);
    let dir = work_dir("e6");
    let mut sess = match Session::spawn(&dir, false) {
        Ok(s) => s,
        Err(e) => {
            rep.inconclusive(format!("session: {}", e));
            return;
        }
    };
    let mut accepted: Vec<Frame> = vec![];
    let mut dead = false;
    for i in 0..n {
        rep.eval();
        rep.count("store.frames_offered", 1);
        let mut f = gen_frame(&mut rng);
        f.context_id = ZERO_CONTEXT;
        if f.topic.as_bytes().contains(&0) {
            f.topic = "t".into();
        }
        if f.topic == "xs.context" {
            f.topic = "xs.contextual".into();
        }
        // persistent frames that nothing may evict (this leg is about decoding, not retention)
        f.ttl = match f.ttl {
            Some(TTL::Forever) => Some(TTL::Forever),
            Some(TTL::Head(k)) if std::env::var("XSMON_E6_KEEP_HEAD").is_ok() => Some(TTL::Head(k)),
            Some(TTL::Head(_)) => Some(TTL::Head(u32::MAX)),
            Some(TTL::Time(_)) => Some(TTL::Time(Duration::from_millis(u64::MAX))),
            _ => None,
        };
        // every other case: deep nesting around serde_json's recursion limit
        let deep = i % 4 == 1;
        if deep {
            let d = *rng.pick(&[100usize, 126, 127, 128, 129, 200]);
            f.meta = Some(gen::nested(d, rng.chance(500)));
            rep.count("store.deep_meta_cases", 1);
            rep.seen("meta_depths", d.to_string());
        }
        if !deep && f.meta.as_ref().map(meta_depth).unwrap_or(0) > 100 {
            f.meta = Some(gen::nested(100, true)); // deeper ones travel as directives (the transport is JSON too)
        }
        let via_import = rng.chance(400);
        let bytes = serde_json::to_vec(&f).unwrap();
        let round_trips = serde_json::from_slice::<Frame>(&bytes).map(|b| b == f).unwrap_or(false);
        // transport to the child is JSON itself: frames that do not survive it are sent as nested-depth directives
        let op = if deep {
            json!({"op": "append_nested", "depth": meta_depth(f.meta.as_ref().unwrap()), "array": f.meta.as_ref().unwrap().is_array(), "topic": f.topic, "import_id": if via_import { Some(scru128::new().to_string()) } else { None }})
        } else if via_import {
            f.id = scru128::new();
            json!({"op": "import", "frame": f})
        } else {
            json!({"op": "append", "frame": f})
        };
        let v = match sess.call(op) {
            Ok(v) => v,
            Err(e) => {
                rep.violation("C12/store/process-died-on-write", json!({"frame": trim(&f), "error": e.to_string()}));
                dead = true;
                break;
            }
        };
        let ok = v.get("ok").is_some();
        if v.get("panics").is_some() || v.get("panic").is_some() {
            rep.violation("C12/store/panic-on-write", json!({"frame": trim(&f), "reply": v}));
        }
        if ok && !round_trips {
            rep.violation(
                "C12/store/accepted-a-frame-that-does-not-parse-back",
                json!({"frame": trim(&f), "via": if via_import { "import" } else { "append" }, "meta_depth": f.meta.as_ref().map(meta_depth)}),
            );
        }
        if !ok && round_trips {
            rep.violation("C12/store/rejected-a-frame-that-round-trips", json!({"frame": trim(&f), "reply": v}));
        }
        if ok {
            rep.count("store.frames_accepted", 1);
            if !deep {
                if let Some(fv) = v.get("ok").filter(|x| x.is_object()) {
                    if let Ok(stored) = serde_json::from_value::<Frame>(fv.clone()) {
                        f.id = stored.id;
                    }
                }
                accepted.push(f.clone());
            }
        } else {
            rep.count("store.frames_rejected", 1);
        }
        // a later read must not fail, whatever was accepted
        if i % 5 == 4 || deep {
            if !reads_ok(rep, &mut sess, &accepted, "after-write") {
                dead = true;
                break;
            }
        }
    }
    if !dead {
        sess.close();
        rep.count("store.reopens", 1);
        match Session::spawn(&dir, false) {
            Ok(mut s2) => {
                reads_ok(rep, &mut s2, &accepted, "after-reopen");
                s2.close();
            }
            Err(e) => rep.violation("C12/store/does-not-reopen", json!({"error": e.to_string()})),
        }
    }
    rm_dir(&dir);
}

fn meta_depth(v: &Value) -> usize {
    match v {
        Value::Array(a) => 1 + a.iter().map(meta_depth).max().unwrap_or(0),
        Value::Object(o) => 1 + o.values().map(meta_depth).max().unwrap_or(0),
        _ => 0,
    }
}

fn reads_ok(rep: &mut Report, sess: &mut Session, accepted: &[Frame], when: &str) -> bool {
    let recent: Vec<Value> = accepted.iter().rev().take(5).map(trim).collect();
    let v = match sess.call(json!({"op": "read_sync", "digest": true})) {
        Ok(v) => v,
        Err(e) => {
            rep.violation("C12/store/poisoned-read-kills-process", json!({"when": when, "error": e.to_string()}));
            return false;
        }
    };
    if v.get("panic").is_some() || v.get("panics").is_some() {
        rep.violation("C12/store/poisoned-read-panics", json!({"when": when, "reply": v, "recently_accepted": recent}));
        return false;
    }
    rep.count("store.reads", 1);
    let got = crate::model::parse_pairs(&v["frames"]);
    for f in accepted {
        match got.iter().find(|g| g.0 == f.id.to_u128()) {
            None => rep.violation("C12/store/accepted-frame-not-read-back", json!({"when": when, "frame": trim(f)})),
            Some(g) if g.1 != crate::session::frame_digest(f) => rep.violation("C12/store/frame-read-back-differs", json!({"when": when, "frame": trim(f)})),
            _ => {}
        }
    }
    // async path and get
    match sess.call(json!({"op": "read", "digest": true, "wait_ms": 30000})) {
        Ok(v2) => {
            if v2.get("panics").is_some() || crate::model::parse_pairs(&v2["frames"]).len() != got.len() {
                rep.violation("C12/store/poisoned-read-panics", json!({"when": when, "path": "read", "reply_panics": v2.get("panics"), "read": crate::model::parse_pairs(&v2["frames"]).len(), "read_sync": got.len()}));
                return false;
            }
        }
        Err(e) => {
            rep.violation("C12/store/poisoned-read-kills-process", json!({"when": when, "error": e.to_string()}));
            return false;
        }
    }
    true
}


/// read options and TTLs travel from the repository's own client (xs::client) to the real server and must
/// mean the same thing there: `client::cat(options)` against a direct store read with the same option fields,
/// `client::append(ttl, meta, context)` against the stored frame.
fn wire_leg(rep: &mut Report, seed: u64, n: usize) {
    let mut rng = Rng::new(seed);
    let dir = work_dir("e6w");
    let mut sess = match Session::spawn(&dir, true) {
        Ok(s) => s,
        Err(e) => {
            rep.inconclusive(format!("session: {}", e));
            return;
        }
    };
    let rt = tokio::runtime::Builder::new_current_thread().enable_all().build().unwrap();
    let addr = dir.to_string_lossy().to_string();
    let r: Result<(), crate::session::SessionError> = (|| {
        // contexts and frames
        let mut ctxs: Vec<Scru128Id> = vec![ZERO_CONTEXT];
        for _ in 0..2 {
            let v = sess.call(json!({"op": "append", "frame": Frame::builder("xs.context", ZERO_CONTEXT).build()}))?;
            if let Ok(f) = serde_json::from_value::<Frame>(v["ok"].clone()) {
                ctxs.push(f.id);
            }
        }
        let mut ids: Vec<Scru128Id> = vec![];
        for i in 0..40 {
            // appends through the client: ttl, meta and context must arrive as given
            let ttl = gen_ttl(&mut rng);
            let ttl = match ttl {
                TTL::Time(d) if d.as_millis() < 10_000_000 => TTL::Time(Duration::from_millis(1_000_000_000_000)),
                TTL::Head(k) if k < 1000 => TTL::Head(100_000 + k),
                other => other,
            };
            let ctx = *rng.pick(&ctxs);
            let meta = gen::meta(&mut rng).filter(|m| m.is_object());
            let body = format!("wire {}", i).into_bytes();
            rep.eval();
            let cs = ctx.to_string();
            let res = rt.block_on(xs::client::append(&addr, "wire", std::io::Cursor::new(body.clone()), meta.as_ref(), Some(ttl.clone()), if ctx == ZERO_CONTEXT { None } else { Some(cs.as_str()) }));
            match res {
                Ok(bytes) => match serde_json::from_slice::<Frame>(&bytes) {
                    Ok(f) => {
                        rep.count("wire.appends_compared", 1);
                        if f.ttl != Some(ttl.clone()) || f.meta != meta || f.context_id != ctx || f.topic != "wire" {
                            rep.violation("C12/wire/append-arrived-different-from-what-the-client-sent", json!({"sent": {"ttl": ttl.to_query(), "meta": meta, "context": cs}, "stored": trim(&f)}));
                        }
                        if ttl != TTL::Ephemeral {
                            ids.push(f.id);
                        }
                    }
                    Err(e) => rep.violation("C12/wire/append-reply-is-not-a-frame", json!({"error": e.to_string()})),
                },
                Err(e) => rep.violation("C12/wire/client-append-failed", json!({"ttl": ttl.to_query(), "error": e.to_string()})),
            }
        }
        for _ in 0..n {
            rep.eval();
            let last = if rng.chance(500) && !ids.is_empty() { Some(*rng.pick(&ids)) } else { None };
            let ctx = if rng.chance(600) { Some(*rng.pick(&ctxs)) } else { None };
            // follow only in shapes that end by themselves (limit within what is stored)
            let direct = sess.call(json!({"op": "read_sync", "digest": true, "last_id": last.map(|l| l.to_string()), "ctx": ctx.map(|c| c.to_string())}))?;
            let avail = crate::model::parse_pairs(&direct["frames"]).len();
            let limit = match rng.below(4) {
                0 => None,
                1 => Some(1usize),
                2 => Some(avail.max(1)),
                _ => Some(1 + rng.below(avail.max(1))),
            };
            let follow = limit.map(|l| l <= avail && avail > 0).unwrap_or(false) && rng.chance(400);
            let tail = !follow && rng.chance(100);
            let opts = ReadOptions::builder()
                .follow(if follow { if rng.chance(500) { FollowOption::On } else { FollowOption::WithHeartbeat(Duration::from_millis(60_000)) } } else { FollowOption::Off })
                .tail(tail)
                .maybe_last_id(last)
                .maybe_limit(limit)
                .maybe_context_id(ctx)
                .build();
            let expect: Vec<(u128, u64)> = if tail { vec![] } else { crate::model::parse_pairs(&direct["frames"]).into_iter().take(limit.unwrap_or(usize::MAX)).collect() };
            let got = rt.block_on(async {
                let mut rx = xs::client::cat(&addr, opts.clone(), false).await.map_err(|e| e.to_string())?;
                let mut buf = vec![];
                loop {
                    match tokio::time::timeout(Duration::from_secs(20), rx.recv()).await {
                        Ok(Some(b)) => buf.extend_from_slice(&b),
                        Ok(None) => return Ok::<_, String>((buf, true)),
                        Err(_) => return Ok((buf, false)),
                    }
                }
            });
            match got {
                Ok((buf, ended)) => {
                    let frames: Vec<(u128, u64)> = crate::http::ndjson(&buf).into_iter().filter_map(|v| serde_json::from_value::<Frame>(v).ok()).filter(|f| f.topic != "xs.pulse" && f.topic != "xs.threshold").map(|f| (f.id.to_u128(), crate::session::frame_digest(&f))).collect();
                    rep.count("wire.reads_compared", 1);
                    rep.nontrivial(fnv(&format!("wire{:?}", opts)));
                    if frames != expect {
                        rep.violation("C12/wire/read-options-mean-something-else-on-the-server", json!({"options": format!("{:?}", opts), "query": opts.to_query_string(), "client_got": frames.len(), "direct_read": expect.len(), "first_ids": frames.iter().take(3).map(|f| crate::model::id_str(f.0)).collect::<Vec<_>>()}));
                    } else if !ended {
                        rep.violation("C12/wire/stream-did-not-end", json!({"options": format!("{:?}", opts)}));
                    }
                }
                Err(e) => rep.violation("C12/wire/client-cat-failed", json!({"options": format!("{:?}", opts), "error": e})),
            }
        }
        // a large export through the client library with a consumer slower than the socket: the whole store, not a
        // prefix of it (what `xs cat | xs import` relies on)
        {
            sess.call_t(json!({"op": "bulk", "n": 600, "size": 300, "tag": 5, "topic": "bulk"}), Duration::from_secs(120))?;
            let direct = sess.call(json!({"op": "read_sync", "digest": true}))?;
            let expect: Vec<(u128, u64)> = crate::model::parse_pairs(&direct["frames"]);
            let opts = ReadOptions::builder().build();
            rep.eval();
            let got = rt.block_on(async {
                let mut rx = xs::client::cat(&addr, opts.clone(), false).await.map_err(|e| e.to_string())?;
                // let the response pile up before the first read, then read with small pauses
                tokio::time::sleep(Duration::from_millis(300)).await;
                let mut buf = vec![];
                let mut n = 0u64;
                loop {
                    match tokio::time::timeout(Duration::from_secs(30), rx.recv()).await {
                        Ok(Some(b)) => {
                            buf.extend_from_slice(&b);
                            n += 1;
                            if n % 8 == 0 {
                                tokio::time::sleep(Duration::from_millis(1)).await;
                            }
                        }
                        Ok(None) => return Ok::<_, String>((buf, true)),
                        Err(_) => return Ok((buf, false)),
                    }
                }
            });
            match got {
                Ok((buf, ended)) => {
                    let frames: Vec<(u128, u64)> = crate::http::ndjson(&buf).into_iter().filter_map(|v| serde_json::from_value::<Frame>(v).ok()).map(|f| (f.id.to_u128(), crate::session::frame_digest(&f))).collect();
                    rep.count("wire.large_exports_compared", 1);
                    rep.count("wire.large_export_frames", frames.len() as u64);
                    if !ended {
                        rep.inconclusive("large export through the client did not end within 30 s");
                    } else if frames != expect {
                        rep.violation("C12/wire/large-export-through-the-client-is-not-the-whole-store", json!({"client_got": frames.len(), "direct_read": expect.len(), "is_prefix": frames.len() < expect.len() && frames[..] == expect[..frames.len()]}));
                    }
                }
                Err(e) => rep.violation("C12/wire/client-cat-failed", json!({"options": "default (large store)", "error": e})),
            }
        }
        // the command-line client is a boundary too: a malformed --ttl is refused there (non-zero exit, nothing
        // stored); a well-formed one arrives as given
        if let Some(bin) = crate::session::self_exe().parent().map(|p| p.join("xs-real")).filter(|b| b.exists()) {
            let run = |args: &[&str]| -> Option<(i32, Vec<u8>)> {
                let out = std::process::Command::new("timeout").arg("-k").arg("2").arg("20").arg(&bin).args(args).stdin(std::process::Stdio::null()).output().ok()?;
                Some((out.status.code().unwrap_or(-1), out.stdout))
            };
            let before = crate::model::parse_pairs(&sess.call(json!({"op": "read_sync", "digest": true}))?["frames"]).len();
            let bad = ["head:0", "head:-1", "head:4294967296", "head:", "time:-5", "time:18446744073709551616", "time:1.5", "sometimes", "Forever", "", "head:1x", "time:", " forever", "ephemeral "];
            for b in bad {
                rep.eval();
                if let Some((code, _)) = run(&["append", &addr, "cli.bad", "--ttl", b]) {
                    rep.count("cli.malformed_ttl_probes", 1);
                    if code == 0 {
                        rep.violation("C12/cli/malformed-ttl-accepted-by-the-command-line-client", json!({"ttl": b}));
                    }
                }
            }
            let after = crate::model::parse_pairs(&sess.call(json!({"op": "read_sync", "digest": true}))?["frames"]);
            if after.len() != before {
                rep.violation("C12/cli/malformed-ttl-request-stored-a-frame", json!({"frames_before": before, "frames_after": after.len()}));
            }
            for (spelling, want) in [("forever", TTL::Forever), ("head:3", TTL::Head(3)), ("time:86400000", TTL::Time(Duration::from_millis(86_400_000))), ("head:4294967295", TTL::Head(u32::MAX))] {
                rep.eval();
                if let Some((code, out)) = run(&["append", &addr, "cli.ok", "--ttl", spelling]) {
                    rep.count("cli.valid_ttl_probes", 1);
                    if code == 0 && out.is_empty() {
                        // `xs append` does not flush tokio's stdout before it exits: the line can be lost (observation)
                        rep.count("cli.exit_0_with_empty_output", 1);
                        continue;
                    }
                    match serde_json::from_slice::<Frame>(&out) {
                        Ok(f) if code == 0 && f.ttl == Some(want.clone()) => {}
                        other => rep.violation("C12/cli/valid-ttl-did-not-arrive-as-given", json!({"ttl": spelling, "exit": code, "reply": other.ok().map(|f| trim(&f))})),
                    }
                }
            }
        }
        Ok(())
    })();
    if let Err(e) = r {
        rep.inconclusive(format!("wire leg: {}", e));
    }
    sess.close();
    rm_dir(&dir);
}

/// The client library's other transport: the same server reached over TCP (`--expose`). Topics that need care in
/// a URI must arrive as sent (or be refused by the client - never be stored as something else), and content
/// fetched by hash through a writer that takes little at a time comes back whole.
fn tcp_leg(rep: &mut Report, seed: u64) {
    let mut rng = Rng::new(seed);
    let port = match std::net::TcpListener::bind("127.0.0.1:0").and_then(|l| l.local_addr()) {
        Ok(a) => a.port(),
        Err(e) => {
            rep.extra.insert("tcp_leg".into(), json!(format!("no loopback port: {}", e)));
            return;
        }
    };
    let addr = format!("127.0.0.1:{}", port);
    let dir = work_dir("e6t");
    let mut sess = match Session::spawn_with(&dir, true, &[("XSMON_EXPOSE", addr.as_str())]) {
        Ok(s) => s,
        Err(e) => {
            rep.inconclusive(format!("tcp leg session: {}", e));
            return;
        }
    };
    let t0 = std::time::Instant::now();
    while std::net::TcpStream::connect(&addr).is_err() {
        if t0.elapsed() > Duration::from_secs(10) {
            rep.extra.insert("tcp_leg".into(), json!("server did not listen on the loopback port within 10 s"));
            sess.close();
            rm_dir(&dir);
            return;
        }
        std::thread::sleep(Duration::from_millis(20));
    }
    let rt = tokio::runtime::Builder::new_current_thread().enable_all().build().unwrap();
    let r: Result<(), crate::session::SessionError> = (|| {
        for topic in ["plain", "tpl.{name}", "quote\"d", "a.b.c", "x%20y", "semi;colon", "tilde~x", "a+b", "pipe|x", "caret^x", "star*", "at@x"] {
            rep.eval();
            let body = format!("tcp {}", topic).into_bytes();
            let res = rt.block_on(xs::client::append(&addr, topic, std::io::Cursor::new(body), None, None, None));
            match res {
                Ok(bytes) => match serde_json::from_slice::<Frame>(&bytes) {
                    Ok(f) => {
                        rep.count("wire.tcp_appends_compared", 1);
                        let stored = sess.call(json!({"op": "get", "id": f.id.to_string()}))?;
                        let stored_topic = stored["frame"]["topic"].as_str().map(|s| s.to_string());
                        if f.topic != topic || stored_topic.as_deref() != Some(topic) {
                            rep.violation("C12/wire/tcp/topic-arrived-different-from-what-the-client-sent", json!({"sent": topic, "answered": f.topic, "stored": stored_topic}));
                        }
                    }
                    Err(_) => {
                        // a refusal by the server (4xx text) is fine; nothing may have been stored under another name
                        rep.count("wire.tcp_appends_refused", 1);
                    }
                },
                Err(_) => rep.count("wire.tcp_appends_refused_by_the_client", 1),
            }
        }
        for len in [5usize, 70_000 + rng.below(60_000)] {
            rep.eval();
            let bytes = rng.bytes(len);
            let v = sess.call(json!({"op": "cas_insert", "b64": crate::session::b64(&bytes)}))?;
            let Some(h) = v["hash"].as_str() else { continue };
            let Ok(integrity) = h.parse::<ssri::Integrity>() else { continue };
            let got = rt.block_on(async {
                let (mut w, mut r) = tokio::io::duplex(1024);
                let reader = tokio::spawn(async move {
                    use tokio::io::AsyncReadExt;
                    let mut out = vec![];
                    let mut buf = [0u8; 700];
                    loop {
                        match r.read(&mut buf).await {
                            Ok(0) | Err(_) => break,
                            Ok(n) => {
                                out.extend_from_slice(&buf[..n]);
                                tokio::time::sleep(Duration::from_micros(50)).await;
                            }
                        }
                    }
                    out
                });
                let res = tokio::time::timeout(Duration::from_secs(30), xs::client::cas_get(&addr, integrity, &mut w)).await;
                drop(w);
                let out = reader.await.unwrap_or_default();
                (res.map(|r| r.map_err(|e| e.to_string())), out)
            });
            match got {
                (Ok(Ok(())), out) => {
                    rep.count("wire.tcp_cas_gets_compared", 1);
                    if out != bytes {
                        rep.violation("C12/wire/tcp/content-fetched-by-hash-differs-from-what-was-stored", json!({"stored_len": bytes.len(), "fetched_len": out.len(), "is_prefix": out.len() < bytes.len() && out[..] == bytes[..out.len()]}));
                    }
                }
                (Ok(Err(e)), _) => rep.violation("C12/wire/tcp/client-cas-get-failed", json!({"len": bytes.len(), "error": e})),
                (Err(_), _) => rep.inconclusive("client cas_get over tcp did not finish within 30 s"),
            }
        }
        Ok(())
    })();
    if let Err(e) = r {
        rep.inconclusive(format!("tcp leg: {}", e));
    }
    sess.close();
    rm_dir(&dir);
}

fn miri_leg(rep: &mut Report) {
    let out = std::process::Command::new("timeout").arg("900").arg("cargo").arg("+nightly").arg("miri").arg("run").current_dir(format!("{}/miri", crate::report::VERIF_DIR)).env("CARGO_NET_OFFLINE", "true").output();
    match out {
        Ok(o) => {
            let stdout = String::from_utf8_lossy(&o.stdout).to_string();
            let stderr = String::from_utf8_lossy(&o.stderr).to_string();
            if let Some(l) = stdout.lines().find(|l| l.starts_with("MIRI-TTL ok")) {
                let n: u64 = l.split_whitespace().last().and_then(|x| x.parse().ok()).unwrap_or(0);
                rep.count("miri.ttl_cases", n);
                rep.evaluations += n;
            } else if stderr.contains("Undefined Behavior") || stderr.contains("panicked") {
                rep.violation("C12/miri/ttl-codec", json!({"stderr": stderr.chars().rev().take(1500).collect::<String>().chars().rev().collect::<String>()}));
            } else {
                rep.extra.insert("miri".into(), json!(format!("not run: {}", stderr.chars().rev().take(300).collect::<String>().chars().rev().collect::<String>())));
            }
        }
        Err(e) => {
            rep.extra.insert("miri".into(), json!(format!("not available: {}", e)));
        }
    }
}
