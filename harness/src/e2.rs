//! E2 — in-process concurrency stress with schedule perturbation (C02, C03, C11).
//!
//! A worker process (`xsmon e2 <mode> <seed> <first> <count>`) runs rounds against fresh
//! stores on a multi-threaded runtime plus OS threads; every written frame carries a unique
//! (writer, seq) meta; client-side events are stamped before the call and after the return.
//! Sync-point hooks only move the schedule (seeded jitter, directed parking with a logical
//! timeout) and count coverage; the deciding oracles look at what callers were given.

use std::collections::{BTreeMap, BTreeSet, HashMap};
use std::path::PathBuf;
use std::sync::atomic::{AtomicBool, AtomicI64, AtomicU64, Ordering};
use std::sync::{Arc, Condvar, Mutex};
use std::time::{Duration, Instant};

use scru128::Scru128Id;
use serde_json::{json, Value};

use xs::store::{FollowOption, Frame, ReadOptions, Store, TTL, ZERO_CONTEXT};

use crate::rng::{mix, Rng};

// ---------------------------------------------------------------------------
// hook state (one per worker process; rounds are sequential)
// ---------------------------------------------------------------------------

#[derive(Default)]
struct ParkRule {
    at: &'static str,
    until: &'static str,
    timeout_ms: u64,
    armed: bool,
    parked: Option<std::thread::ThreadId>,
    released: bool,
    entered: u64,
    blocked: u64,
    max_uses: u64,
}

struct HookState {
    rng: Rng,
    jitter_permille: u64,
    jitter_max_us: u64,
    jitter_prefixes: Vec<&'static str>,
    rule: ParkRule,
    trace: Vec<(&'static str, u64)>,
    trace_on: bool,
}

struct Hooks {
    st: Mutex<HookState>,
    cv: Condvar,
    in_append: AtomicI64,
    max_in_append: AtomicI64,
    point_hits: Mutex<BTreeMap<&'static str, u64>>,
}

fn thread_tag() -> u64 {
    use std::hash::{Hash, Hasher};
    let mut h = std::collections::hash_map::DefaultHasher::new();
    std::thread::current().id().hash(&mut h);
    h.finish()
}

fn install_hooks() -> Arc<Hooks> {
    let hooks = Arc::new(Hooks {
        st: Mutex::new(HookState {
            rng: Rng::new(1),
            jitter_permille: 0,
            jitter_max_us: 0,
            jitter_prefixes: vec![],
            rule: ParkRule::default(),
            trace: vec![],
            trace_on: false,
        }),
        cv: Condvar::new(),
        in_append: AtomicI64::new(0),
        max_in_append: AtomicI64::new(0),
        point_hits: Mutex::new(BTreeMap::new()),
    });
    let h = hooks.clone();
    xs::verif::set_hook(Some(Arc::new(move |name: &'static str, _id: Option<Scru128Id>| {
        *h.point_hits.lock().unwrap().entry(name).or_insert(0) += 1;
        if name == "append.id_assigned" {
            let n = h.in_append.fetch_add(1, Ordering::SeqCst) + 1;
            h.max_in_append.fetch_max(n, Ordering::SeqCst);
        } else if name == "append.broadcast" {
            h.in_append.fetch_sub(1, Ordering::SeqCst);
        }
        let me = std::thread::current().id();
        let mut sleep_us = 0;
        {
            let mut st = h.st.lock().unwrap();
            if st.trace_on && st.trace.len() < 20_000 {
                st.trace.push((name, thread_tag()));
            }
            // release a parked actor
            if st.rule.armed && st.rule.parked.is_some() && st.rule.parked != Some(me) && name == st.rule.until {
                st.rule.released = true;
                h.cv.notify_all();
            }
            // park
            if st.rule.armed && st.rule.parked.is_none() && name == st.rule.at && st.rule.entered + st.rule.blocked < st.rule.max_uses {
                st.rule.parked = Some(me);
                st.rule.released = false;
                let deadline = Instant::now() + Duration::from_millis(st.rule.timeout_ms);
                loop {
                    if st.rule.released {
                        st.rule.entered += 1;
                        break;
                    }
                    let now = Instant::now();
                    if now >= deadline {
                        st.rule.blocked += 1;
                        break;
                    }
                    let (g, _) = h.cv.wait_timeout(st, deadline - now).unwrap();
                    st = g;
                }
                st.rule.parked = None;
            } else if st.jitter_permille > 0 && (st.jitter_prefixes.is_empty() || st.jitter_prefixes.iter().any(|p| name.starts_with(p))) {
                let p = st.jitter_permille;
                if st.rng.chance(p) {
                    let m = st.jitter_max_us.max(1);
                    sleep_us = st.rng.range(1, m);
                }
            }
        }
        if sleep_us > 0 {
            std::thread::sleep(Duration::from_micros(sleep_us));
        }
    })));
    hooks
}

impl Hooks {
    fn configure(&self, seed: u64, permille: u64, max_us: u64, prefixes: Vec<&'static str>, rule: Option<(&'static str, &'static str, u64, u64)>) {
        let mut st = self.st.lock().unwrap();
        st.rng = Rng::new(seed);
        st.jitter_permille = permille;
        st.jitter_max_us = max_us;
        st.jitter_prefixes = prefixes;
        st.trace.clear();
        st.trace_on = true;
        st.rule = ParkRule::default();
        if let Some((at, until, timeout_ms, max_uses)) = rule {
            st.rule = ParkRule { at, until, timeout_ms, armed: true, max_uses, ..Default::default() };
        }
        self.in_append.store(0, Ordering::SeqCst);
        self.max_in_append.store(0, Ordering::SeqCst);
        self.point_hits.lock().unwrap().clear();
    }
    fn disarm(&self) -> (u64, u64, u64, i64, BTreeMap<&'static str, u64>) {
        let mut st = self.st.lock().unwrap();
        st.rule.armed = false;
        st.rule.released = true;
        self.cv.notify_all();
        st.jitter_permille = 0;
        st.trace_on = false;
        // interleaving class: hash of the order of hook events with threads renamed by first appearance
        let mut names: HashMap<u64, u64> = HashMap::new();
        let mut s = String::new();
        for (n, t) in st.trace.iter().take(4000) {
            let l = names.len() as u64;
            let k = *names.entry(*t).or_insert(l);
            s.push_str(n);
            s.push_str(&k.to_string());
            s.push(',');
        }
        (st.rule.entered, st.rule.blocked, crate::report::fnv(&s), self.max_in_append.load(Ordering::SeqCst), self.point_hits.lock().unwrap().clone())
    }
}

// ---------------------------------------------------------------------------
// helpers
// ---------------------------------------------------------------------------

fn us(base: Instant) -> u64 {
    base.elapsed().as_micros() as u64
}

fn new_store(tag: &str) -> (Store, PathBuf) {
    let dir = crate::session::work_dir(tag);
    (Store::new(dir.clone()), dir)
}

fn is_synth(f: &Frame) -> bool {
    f.topic == "xs.threshold" || f.topic == "xs.pulse"
}

fn ids(v: &[u128]) -> Vec<String> {
    v.iter().map(|i| crate::model::id_str(*i)).collect()
}

#[derive(Clone, Debug)]
struct Ack {
    id: u128,
    ctx: u128,
    call: u64,
    ret: u64,
    ephemeral: bool,
    topic: String,
}

struct ReadEv {
    scope: Option<u128>,
    call: u64,
    ret: u64,
    ids: Vec<u128>,
}

fn violation(out: &mut Vec<Value>, props: &[&str], sig: &str, detail: Value) {
    if out.iter().filter(|v| v["signature"] == sig).count() < 2 {
        out.push(json!({"props": props, "signature": sig, "detail": detail}));
    }
}

// ---------------------------------------------------------------------------
// C02 round: concurrent appenders, last-id pollers, snapshot readers, followers
// ---------------------------------------------------------------------------

pub fn round_c02(rt: &tokio::runtime::Runtime, hooks: &Hooks, seed: u64) -> Value {
    let mut rng = Rng::new(seed);
    let (store, dir) = new_store("e2c02");
    let ctx_a = store.append(Frame::builder("xs.context", ZERO_CONTEXT).build()).unwrap().id;
    let writers = 2 + rng.below(7);
    let per_writer = 25 + rng.below(100);
    let directed = rng.chance(300);
    let jitter = if directed { 0 } else { [0u64, 100, 300, 600][rng.below(4)] };
    let max_us = [50u64, 200, 500][rng.below(3)];
    let prefixes: Vec<&'static str> = match rng.below(3) {
        0 => vec!["append."],
        1 => vec!["append.id_assigned", "append.committed"],
        _ => vec![],
    };
    let rule = if directed {
        Some(match rng.below(3) {
            0 => ("append.id_assigned", "append.broadcast", 20u64, 40u64),
            1 => ("append.committed", "append.broadcast", 20, 40),
            _ => ("append.id_assigned", "append.committed", 20, 40),
        })
    } else {
        None
    };
    hooks.configure(seed, jitter, max_us, prefixes, rule);

    let base = Instant::now();
    let acks: Arc<Mutex<Vec<Ack>>> = Arc::new(Mutex::new(vec![]));
    let reads: Arc<Mutex<Vec<ReadEv>>> = Arc::new(Mutex::new(vec![]));
    let stop = Arc::new(AtomicBool::new(false));
    let mut out: Vec<Value> = vec![];

    // followers (all / ctx A, from the beginning and tail)
    let follow_specs: Vec<(Option<Scru128Id>, bool)> = vec![(None, false), (Some(ctx_a), false), (None, true)];
    let mut follower_handles = vec![];
    for (scope, tail) in follow_specs.clone() {
        let store = store.clone();
        let h = rt.spawn(async move {
            let opts = ReadOptions::builder().follow(FollowOption::On).tail(tail).maybe_context_id(scope).build();
            let mut rx = store.read(opts).await;
            let mut got: Vec<(u128, String)> = vec![];
            let mut sentinels = 0;
            loop {
                match tokio::time::timeout(Duration::from_secs(30), rx.recv()).await {
                    Ok(Some(f)) => {
                        if f.topic == "sentinel" {
                            sentinels += 1;
                            got.push((f.id.to_u128(), f.topic.clone()));
                            // all-scope followers wait for both sentinels, ctx-scope for its own
                            if (scope.is_none() && sentinels == 2) || scope.is_some() {
                                return (got, "sentinel");
                            }
                        } else {
                            got.push((f.id.to_u128(), f.topic.clone()));
                        }
                    }
                    Ok(None) => return (got, "closed"),
                    Err(_) => return (got, "timeout"),
                }
            }
        });
        follower_handles.push(h);
    }
    // give the followers a moment to subscribe (not required for the oracle; more frames reach them live)
    std::thread::sleep(Duration::from_millis(5));

    // pollers
    let poll_specs: Vec<(Option<Scru128Id>, Option<usize>, bool)> = vec![(None, None, false), (Some(ctx_a), Some(7), false), (Some(ZERO_CONTEXT), None, true)];
    let mut poller_handles = vec![];
    for (scope, limit, use_async) in poll_specs.clone() {
        let store = store.clone();
        let stop = stop.clone();
        let reads = reads.clone();
        let rth = rt.handle().clone();
        poller_handles.push(std::thread::spawn(move || {
            let mut last: Option<Scru128Id> = None;
            let mut seq: Vec<u128> = vec![];
            let mut polls = 0u64;
            let mut stop_seen_at: Option<Instant> = None;
            loop {
                let stopping = stop.load(Ordering::SeqCst);
                if stopping && stop_seen_at.is_none() {
                    stop_seen_at = Some(Instant::now());
                }
                // bounded: a poller that never reaches an empty poll (e.g. last-id not exclusive) must not hang the round;
                // what it collected is still judged below (duplicates, order)
                if stop_seen_at.map(|t| t.elapsed() > Duration::from_secs(5)).unwrap_or(false) || seq.len() > 200_000 {
                    break;
                }
                let call = us(base);
                let batch: Vec<Frame> = if use_async {
                    rth.block_on(async {
                        let mut rx = store.read(ReadOptions::builder().maybe_last_id(last).maybe_context_id(scope).maybe_limit(limit).build()).await;
                        let mut v = vec![];
                        while let Some(f) = rx.recv().await {
                            v.push(f);
                        }
                        v
                    })
                } else {
                    store.read_sync(last.as_ref(), limit, scope).collect()
                };
                let ret = us(base);
                polls += 1;
                let b: Vec<u128> = batch.iter().map(|f| f.id.to_u128()).collect();
                if let Some(l) = batch.last() {
                    last = Some(l.id);
                }
                seq.extend(b.iter());
                let _ = (&reads, call, ret);
                if stopping && b.is_empty() {
                    break;
                }
                if b.is_empty() {
                    std::thread::sleep(Duration::from_micros(200));
                }
            }
            (seq, polls)
        }));
    }
    // snapshot readers
    let mut snap_handles = vec![];
    for scope in [None, Some(ctx_a)] {
        let store = store.clone();
        let stop = stop.clone();
        let reads = reads.clone();
        snap_handles.push(std::thread::spawn(move || {
            let mut n = 0;
            while !stop.load(Ordering::SeqCst) && n < 400 {
                let call = us(base);
                let v: Vec<u128> = store.read_sync(None, None, scope).map(|f| f.id.to_u128()).collect();
                let ret = us(base);
                reads.lock().unwrap().push(ReadEv { scope: scope.map(|s| s.to_u128()), call, ret, ids: v });
                n += 1;
                std::thread::sleep(Duration::from_micros(300));
            }
        }));
    }

    // writers
    let mut writer_handles = vec![];
    for w in 0..writers {
        let store = store.clone();
        let acks = acks.clone();
        writer_handles.push(std::thread::spawn(move || {
            for s in 0..per_writer {
                let ctx = if (w + s) % 3 == 0 { ctx_a } else { ZERO_CONTEXT };
                // writers mix TTL kinds: ephemeral frames take the same id / broadcast path without a commit
                let eph = (w * 7 + s) % 5 == 2;
                let ttl = if eph { Some(TTL::Ephemeral) } else if s % 9 == 4 { Some(TTL::Head(u32::MAX)) } else { None };
                let f = Frame::builder(format!("t{}", w % 2), ctx).meta(json!({"w": w, "s": s})).maybe_ttl(ttl).build();
                let call = us(base);
                let r = store.append(f);
                let ret = us(base);
                if let Ok(f) = r {
                    acks.lock().unwrap().push(Ack { id: f.id.to_u128(), ctx: f.context_id.to_u128(), call, ret, ephemeral: eph, topic: f.topic });
                }
            }
        }));
    }
    for h in writer_handles {
        let _ = h.join();
    }
    let (entered, blocked, class, max_conc, hits) = hooks.disarm();
    // sentinels (one per context) after every writer is acknowledged
    let s0 = store.append(Frame::builder("sentinel", ZERO_CONTEXT).build()).unwrap();
    let s1 = store.append(Frame::builder("sentinel", ctx_a).build()).unwrap();
    stop.store(true, Ordering::SeqCst);
    let acks_v: Vec<Ack> = {
        let mut a = acks.lock().unwrap().clone();
        a.push(Ack { id: s0.id.to_u128(), ctx: 0, call: 0, ret: 0, ephemeral: false, topic: "sentinel".into() });
        a.push(Ack { id: s1.id.to_u128(), ctx: ctx_a.to_u128(), call: 0, ret: 0, ephemeral: false, topic: "sentinel".into() });
        a
    };
    let mut inconclusive: Option<String> = None;

    // (c) pollers: exactly once
    let mut polls_total = 0;
    for (h, (scope, limit, use_async)) in poller_handles.into_iter().zip(poll_specs.iter()) {
        let (seq, polls) = h.join().unwrap();
        polls_total += polls;
        let expect: Vec<u128> = {
            let mut e: Vec<u128> = acks_v.iter().filter(|a| !a.ephemeral && scope.map(|s| s.to_u128() == a.ctx).unwrap_or(true)).map(|a| a.id).collect();
            if scope.is_none() || *scope == Some(ZERO_CONTEXT) {
                e.push(ctx_a.to_u128()); // the registration frame itself
            }
            e.sort();
            e
        };
        let d = json!({"scope": scope.map(|s| s.to_string()), "limit": limit, "path": if *use_async { "read" } else { "read_sync" }});
        if seq.windows(2).any(|w| w[1] <= w[0]) {
            violation(&mut out, &["C02", "C01"], "poller/ids-not-strictly-increasing", d.clone());
        }
        let got: BTreeSet<u128> = seq.iter().copied().collect();
        if let Some(x) = acks_v.iter().find(|a| a.ephemeral && got.contains(&a.id)) {
            violation(&mut out, &["C09", "C02"], "poller/ephemeral-frame-was-stored", json!({"id": crate::model::id_str(x.id)}));
        }
        let missing: Vec<u128> = expect.iter().copied().filter(|i| !got.contains(i)).collect();
        if !missing.is_empty() {
            violation(
                &mut out,
                &["C02"],
                "poller/acknowledged-frames-never-seen-by-last-id-polling",
                json!({"poller": d, "missing_count": missing.len(), "missing": ids(&missing[..missing.len().min(5)]), "expected": expect.len()}),
            );
        }
        if got.len() != seq.len() {
            violation(&mut out, &["C02"], "poller/frame-seen-twice", d.clone());
        }
    }
    for h in snap_handles {
        let _ = h.join();
    }
    // (b) snapshot monotonicity (A.6)
    let reads_v = std::mem::take(&mut *reads.lock().unwrap());
    let mut pairs_checked = 0u64;
    for scope in [None, Some(ctx_a.to_u128())] {
        let mut rs: Vec<&ReadEv> = reads_v.iter().filter(|r| r.scope == scope).collect();
        rs.sort_by_key(|r| r.ret);
        // for each B, compare with the latest A with A.ret < B.call (suffices: sets only grow)
        for (bi, b) in rs.iter().enumerate() {
            if let Some(a) = rs[..bi].iter().rev().find(|a| a.ret < b.call) {
                pairs_checked += 1;
                let aset: BTreeSet<u128> = a.ids.iter().copied().collect();
                let amax = a.ids.iter().copied().max().unwrap_or(0);
                if let Some(x) = b.ids.iter().find(|x| !aset.contains(x) && **x < amax) {
                    violation(
                        &mut out,
                        &["C02"],
                        "snapshot/frame-appeared-below-an-already-visible-id",
                        json!({"scope": scope.map(crate::model::id_str), "new_id": crate::model::id_str(*x), "earlier_max": crate::model::id_str(amax), "a_ret_us": a.ret, "b_call_us": b.call}),
                    );
                    break;
                }
                if let Some(x) = a.ids.iter().find(|x| !b.ids.contains(x)) {
                    violation(&mut out, &["C02", "C08"], "snapshot/visible-frame-disappeared", json!({"id": crate::model::id_str(*x)}));
                    break;
                }
            }
        }
    }
    // (a) followers: increasing ids, and completeness for from-the-beginning followers
    let mut live_frames = 0u64;
    for (h, (scope, tail)) in follower_handles.into_iter().zip(follow_specs.iter()) {
        let (got, how) = rt.block_on(async { h.await.unwrap() });
        let real: Vec<u128> = got.iter().filter(|(_, t)| t != "xs.threshold" && t != "xs.pulse").map(|g| g.0).collect();
        live_frames += real.len() as u64;
        let d = json!({"scope": scope.map(|s| s.to_string()), "tail": tail, "ended": how});
        if let Some(w) = real.windows(2).find(|w| w[1] <= w[0]) {
            violation(&mut out, &["C02", "C03"], "follower/ids-not-increasing", json!({"follower": d, "pair": ids(w)}));
        }
        if how == "timeout" {
            // the sentinel never arrived: frames were lost or the stream stalled; decide by a safety witness
            inconclusive = Some("follower did not reach its sentinel within 30 s".into());
        }
        if !tail && how == "sentinel" {
            let expect: BTreeSet<u128> = acks_v.iter().filter(|a| !a.ephemeral && scope.map(|s| s.to_u128() == a.ctx).unwrap_or(true)).map(|a| a.id).collect();
            let gs: BTreeSet<u128> = real.iter().copied().collect();
            let missing: Vec<u128> = expect.iter().copied().filter(|i| !gs.contains(i)).collect();
            if !missing.is_empty() {
                violation(&mut out, &["C03", "C02"], "follower/acknowledged-frame-never-delivered", json!({"follower": d, "missing": ids(&missing[..missing.len().min(5)]), "missing_count": missing.len()}));
            }
            if gs.len() != real.len() {
                violation(&mut out, &["C03"], "follower/frame-delivered-twice", d.clone());
            }
        }
    }
    // overlap evidence: appends that overlapped in time
    let mut overlapped = 0u64;
    {
        let mut a = acks_v.clone();
        a.retain(|x| x.ret > 0);
        a.sort_by_key(|x| x.call);
        for w in a.windows(2) {
            if w[1].call < w[0].ret {
                overlapped += 1;
            }
        }
    }
    crate::session::rm_dir(&dir);
    json!({
        "mode": "c02",
        "seed": seed,
        "config": {"writers": writers, "per_writer": per_writer, "jitter_permille": jitter, "max_us": max_us, "directed": rule.map(|r| format!("{}->{}", r.0, r.1))},
        "frames": acks_v.len(),
        "polls": polls_total,
        "snapshot_pairs": pairs_checked,
        "live_frames": live_frames,
        "overlapping_appends": overlapped,
        "max_concurrent_appenders": max_conc,
        "window_entered": entered,
        "window_blocked": blocked,
        "class": class.to_string(),
        "hits": hits,
        "violations": out,
        "inconclusive": inconclusive,
        "nontrivial": overlapped >= 2 && pairs_checked > 0,
    })
}

// ---------------------------------------------------------------------------
// C03 round: follow across history -> live with concurrent appends (A.7)
// ---------------------------------------------------------------------------

pub fn round_c03(rt: &tokio::runtime::Runtime, hooks: &Hooks, seed: u64) -> Value {
    let mut rng = Rng::new(seed);
    let (store, dir) = new_store("e2c03");
    let ctx_a = store.append(Frame::builder("xs.context", ZERO_CONTEXT).build()).unwrap().id;
    let hist = [0usize, 1, 7, 99, 100, 101, 250][rng.below(7)];
    let scope: Option<Scru128Id> = if rng.chance(500) { Some(ctx_a) } else { None };
    let start_kind = ["beginning", "last-id-live", "last-id-removed", "tail"][rng.below(4)];
    let appenders = 1 + rng.below(4);
    let per_app = 10 + rng.below(60);
    let pre_start = rng.chance(700); // appenders begin before read() is called

    // history (single writer); in some rounds interleaved with time:1ms frames that are expired (virtual clock)
    // but not yet collected when the follower starts: they are not delivered, and what follows them is
    let with_expired = rng.chance(300);
    let mut hist_ids: Vec<(u128, u128)> = vec![(ctx_a.to_u128(), 0)];
    for i in 0..hist {
        if with_expired && i % 7 == 3 {
            let _ = store.append(Frame::builder("h", if i % 2 == 0 { ctx_a } else { ZERO_CONTEXT }).meta(json!({"expired": i})).ttl(TTL::Time(Duration::from_millis(1))).build());
        }
        let ctx = if i % 2 == 0 { ctx_a } else { ZERO_CONTEXT };
        let ttl = if i % 11 == 5 { Some(TTL::Ephemeral) } else { None };
        let f = store.append(Frame::builder("h", ctx).meta(json!({"h": i})).maybe_ttl(ttl.clone()).build()).unwrap();
        if ttl.is_none() {
            hist_ids.push((f.id.to_u128(), ctx.to_u128()));
        }
    }
    let mut removed: BTreeSet<u128> = BTreeSet::new();
    let mut last_id: Option<u128> = None;
    if hist_ids.len() > 3 {
        // remove one frame in the middle
        let victim = hist_ids[hist_ids.len() / 2].0;
        let _ = store.remove(&Scru128Id::from(victim));
        removed.insert(victim);
        match start_kind {
            "last-id-live" => last_id = Some(hist_ids[hist_ids.len() / 3].0),
            "last-id-removed" => last_id = Some(victim),
            _ => {}
        }
    }
    let tail = start_kind == "tail";
    if with_expired {
        let now = std::time::SystemTime::now().duration_since(std::time::UNIX_EPOCH).unwrap().as_millis() as u64;
        xs::verif::set_now(Some(now + 60_000));
    }

    let directed = rng.chance(400);
    let rule = if directed {
        Some(match rng.below(4) {
            0 => ("read.hist_done", "append.broadcast", 20u64, 3u64),
            1 => ("read.subscribed", "append.committed", 20, 3),
            2 => ("append.committed", "read.hist_scanned", 20, 5),
            _ => ("read.hist_scanned", "append.broadcast", 20, 3),
        })
    } else {
        None
    };
    let jitter = if directed { 0 } else { [0u64, 200, 500][rng.below(3)] };
    hooks.configure(seed, jitter, 300, vec![], rule);

    let base = Instant::now();
    let acks: Arc<Mutex<Vec<Ack>>> = Arc::new(Mutex::new(vec![]));
    let go = Arc::new(AtomicBool::new(false));
    let mut hs = vec![];
    for w in 0..appenders {
        let store = store.clone();
        let acks = acks.clone();
        let go = go.clone();
        hs.push(std::thread::spawn(move || {
            while !go.load(Ordering::SeqCst) {
                std::thread::yield_now();
            }
            for s in 0..per_app {
                let ctx = if (w + s) % 2 == 0 { ctx_a } else { ZERO_CONTEXT };
                let eph = s % 5 == 3;
                let f = Frame::builder("live", ctx).meta(json!({"w": w, "s": s})).maybe_ttl(if eph { Some(TTL::Ephemeral) } else { None }).build();
                let call = us(base);
                let r = store.append(f);
                let ret = us(base);
                if let Ok(f) = r {
                    acks.lock().unwrap().push(Ack { id: f.id.to_u128(), ctx: f.context_id.to_u128(), call, ret, ephemeral: eph, topic: f.topic });
                }
                if s % 7 == 0 {
                    std::thread::sleep(Duration::from_micros(100));
                }
            }
        }));
    }
    // in some rounds history frames are removed while the followers scan: a removed frame may or may not be
    // delivered, every other one still must be
    let mut conc_removed: BTreeSet<u128> = BTreeSet::new();
    if rng.chance(300) && hist_ids.len() > 20 {
        for (k, (id, _)) in hist_ids.iter().enumerate() {
            if k > 2 && k % 9 == 4 && k < hist_ids.len() * 2 / 3 && Some(*id) != last_id && !removed.contains(id) {
                conc_removed.insert(*id);
            }
        }
        let victims: Vec<u128> = conc_removed.iter().copied().collect();
        let store = store.clone();
        let go = go.clone();
        hs.push(std::thread::spawn(move || {
            while !go.load(Ordering::SeqCst) {
                std::thread::yield_now();
            }
            for v in victims {
                let _ = store.remove(&Scru128Id::from(v));
            }
        }));
    }
    if pre_start {
        go.store(true, Ordering::SeqCst);
        std::thread::sleep(Duration::from_micros(rng.range(0, 2000)));
    }
    let opts = ReadOptions::builder()
        .follow(FollowOption::On)
        .tail(tail)
        .maybe_last_id(last_id.map(Scru128Id::from))
        .maybe_context_id(scope)
        .build();
    let t0 = us(base);
    let mut rx = rt.block_on(store.read(opts));
    let t1 = us(base);
    go.store(true, Ordering::SeqCst);
    // more followers opened while the appenders are at work (the append lock is contended then)
    let mut extra = vec![];
    for _ in 0..3 {
        let delay_us = rng.range(0, 5000);
        let escope: Option<Scru128Id> = if rng.chance(500) { Some(ctx_a) } else { None };
        let estart: Option<u128> = if rng.chance(500) && hist_ids.len() > 3 { Some(hist_ids[rng.below(hist_ids.len())].0) } else { None };
        let store = store.clone();
        let h = rt.spawn(async move {
            tokio::time::sleep(Duration::from_micros(delay_us)).await;
            let opts = ReadOptions::builder().follow(FollowOption::On).maybe_last_id(estart.map(Scru128Id::from)).maybe_context_id(escope).build();
            let mut rx = store.read(opts).await;
            let mut got: Vec<Frame> = vec![];
            loop {
                match tokio::time::timeout(Duration::from_secs(30), rx.recv()).await {
                    Ok(Some(f)) => {
                        let done = f.topic == "sentinel" && f.context_id == ctx_a;
                        got.push(f);
                        if done {
                            if !got.iter().any(|f| f.topic == "xs.threshold") {
                                // the sentinel was already history for this follower: the threshold follows it
                                while let Ok(Some(f)) = tokio::time::timeout(Duration::from_secs(5), rx.recv()).await {
                                    let th = f.topic == "xs.threshold";
                                    got.push(f);
                                    if th {
                                        break;
                                    }
                                }
                            }
                            return (got, "sentinel");
                        }
                    }
                    Ok(None) => return (got, "closed"),
                    Err(_) => return (got, "timeout"),
                }
            }
        });
        extra.push((escope, estart, h));
    }
    let store2 = store.clone();
    let recv_task = rt.spawn(async move {
        let mut got: Vec<Frame> = vec![];
        loop {
            match tokio::time::timeout(Duration::from_secs(30), rx.recv()).await {
                Ok(Some(f)) => {
                    let done = f.topic == "sentinel";
                    got.push(f);
                    if done {
                        // the sentinel may have been picked up by the historical scan itself; the
                        // threshold then follows it: keep receiving until it shows up (bounded)
                        if !tail && !got.iter().any(|f| f.topic == "xs.threshold") {
                            while let Ok(Some(f)) = tokio::time::timeout(Duration::from_secs(5), rx.recv()).await {
                                let th = f.topic == "xs.threshold";
                                got.push(f);
                                if th {
                                    break;
                                }
                            }
                        }
                        return (got, "sentinel");
                    }
                }
                Ok(None) => return (got, "closed"),
                Err(_) => return (got, "timeout"),
            }
        }
    });
    for h in hs {
        let _ = h.join();
    }
    let (entered, blocked, class, _mc, hits) = hooks.disarm();
    let sentinel_ctx = scope.unwrap_or(ZERO_CONTEXT);
    let sent = store2.append(Frame::builder("sentinel", sentinel_ctx).build()).unwrap();
    let sent_a = if sentinel_ctx == ctx_a { sent.clone() } else { store2.append(Frame::builder("sentinel", ctx_a).build()).unwrap() };
    let (got, how) = rt.block_on(async { recv_task.await.unwrap() });
    let extra_results: Vec<(Option<Scru128Id>, Option<u128>, Vec<Frame>, &'static str)> =
        extra.into_iter().map(|(sc, st, h)| { let (g, how) = rt.block_on(async { h.await.unwrap() }); (sc, st, g, how) }).collect();

    let mut out: Vec<Value> = vec![];
    let mut inconclusive = None;
    let in_scope = |ctx: u128| scope.map(|s| s.to_u128() == ctx).unwrap_or(true);
    let acks_v = acks.lock().unwrap().clone();
    // P: stored, in scope, acked before t0 (history incl. live frames acked before the call), after start
    let mut p: BTreeSet<u128> = BTreeSet::new();
    for (id, ctx) in &hist_ids {
        if in_scope(*ctx) && !removed.contains(id) && last_id.map(|l| *id > l).unwrap_or(true) {
            p.insert(*id);
        }
    }
    let mut q: BTreeSet<u128> = BTreeSet::new();
    let mut u: BTreeSet<u128> = BTreeSet::new();
    let mut eph: BTreeSet<u128> = BTreeSet::new();
    for a in &acks_v {
        if !in_scope(a.ctx) {
            continue;
        }
        if a.ephemeral {
            eph.insert(a.id);
        }
        if a.ret < t0 {
            if !a.ephemeral && last_id.map(|l| a.id > l).unwrap_or(true) {
                p.insert(a.id);
            }
        } else if a.call > t1 {
            q.insert(a.id);
        } else {
            u.insert(a.id);
        }
    }
    q.insert(sent.id.to_u128());
    // known, but optional
    for c in &conc_removed {
        p.remove(c);
    }
    let d = json!({"history": hist, "scope": scope.map(|s| s.to_string()), "start": start_kind, "removed_during_the_scan": conc_removed.len(), "appenders": appenders, "pre_start": pre_start, "ended": how,
                   "directed": rule.map(|r| format!("{}->{}", r.0, r.1)), "p": p.len(), "u": u.len(), "q": q.len()});
    let real: Vec<&Frame> = got.iter().filter(|f| !is_synth(f)).collect();
    let rid: Vec<u128> = real.iter().map(|f| f.id.to_u128()).collect();
    if let Some(w) = rid.windows(2).find(|w| w[1] <= w[0]) {
        let sig = if w[1] == w[0] { "follow/frame-delivered-twice" } else { "follow/ids-not-increasing" };
        violation(&mut out, &["C03", "C02"], sig, json!({"round": d, "pair": ids(w)}));
    }
    let rset: BTreeSet<u128> = rid.iter().copied().collect();
    if rset.len() != rid.len() {
        violation(&mut out, &["C03"], "follow/frame-delivered-twice", json!({"round": d}));
    }
    if how == "timeout" {
        inconclusive = Some("follower did not reach its sentinel within 30 s".to_string());
    }
    if how == "closed" {
        violation(&mut out, &["C03", "C11"], "follow/stream-ended-while-following-without-limit", json!({"round": d, "received": rid.len()}));
    }
    if how == "sentinel" {
        // stored frames must arrive whenever they were appended relative to read(); only ephemeral
        // frames (and, with tail, everything) whose append overlapped the call are optional
        let u_stored: BTreeSet<u128> = u.iter().copied().filter(|i| !eph.contains(i)).collect();
        let must: Vec<u128> = if tail { q.iter().copied().collect() } else { p.union(&q).copied().chain(u_stored.iter().copied()).collect() };
        let missing: Vec<u128> = must.iter().copied().filter(|i| !rset.contains(i)).collect();
        if !missing.is_empty() {
            let from_p = missing.iter().filter(|i| p.contains(i)).count();
            let sig = if from_p > 0 { "follow/historical-frame-not-delivered" } else { "follow/live-frame-not-delivered" };
            let info: Vec<Value> = missing.iter().take(5).map(|m| match acks_v.iter().find(|a| a.id == *m) {
                Some(a) => json!({"id": crate::model::id_str(*m), "ephemeral": a.ephemeral, "topic": a.topic, "call_us": a.call, "ret_us": a.ret, "t1_us": t1}),
                None => json!({"id": crate::model::id_str(*m), "historical": true}),
            }).collect();
            let eph_only = missing.iter().all(|m| eph.contains(m));
            let sig = if eph_only && from_p == 0 { "follow/ephemeral-frame-appended-during-replay-not-delivered" } else { sig };
            violation(&mut out, &["C03"], sig, json!({"round": d, "missing": info, "missing_count": missing.len(), "from_history": from_p, "received_tail": ids(&rid[rid.len().saturating_sub(3)..])}));
        }
        for f in &real {
            let id = f.id.to_u128();
            let known = p.contains(&id) || u.contains(&id) || q.contains(&id) || (conc_removed.contains(&id) && in_scope(f.context_id.to_u128()) && last_id.map(|l| id > l).unwrap_or(true) && !tail);
            if !known {
                let sig = if !in_scope(f.context_id.to_u128()) {
                    "follow/frame-of-foreign-context"
                } else if tail && hist_ids.iter().any(|h| h.0 == id) {
                    "follow/tail-delivered-historical-frame"
                } else if removed.contains(&id) {
                    "follow/removed-frame-delivered"
                } else if last_id.map(|l| id <= l).unwrap_or(false) {
                    "follow/frame-not-after-last-id"
                } else {
                    "follow/unexpected-frame"
                };
                let props: &[&str] = if sig.contains("foreign") { &["C03", "C06"] } else if sig.contains("tail") { &["C03", "C11"] } else { &["C03"] };
                violation(&mut out, props, sig, json!({"round": d, "frame": f}));
            }
        }
        if tail {
            if let Some(x) = rid.iter().find(|i| p.contains(i)) {
                violation(&mut out, &["C03", "C11"], "follow/tail-delivered-historical-frame", json!({"round": d, "id": crate::model::id_str(*x)}));
            }
        }
        // threshold
        let th: Vec<usize> = got.iter().enumerate().filter(|(_, f)| f.topic == "xs.threshold").map(|(i, _)| i).collect();
        let want = if tail { 0 } else { 1 };
        if th.len() != want {
            violation(&mut out, &["C03"], "follow/threshold-count-wrong", json!({"round": d, "thresholds": th.len(), "expected": want}));
        } else if let Some(ti) = th.first() {
            // after every frame that existed when the read began (P) ...
            if let Some((_, f)) = got.iter().enumerate().find(|(i, f)| i > ti && p.contains(&f.id.to_u128())) {
                violation(&mut out, &["C03"], "follow/pre-existing-frame-after-threshold", json!({"round": d, "id": f.id.to_string()}));
            }
            // ... and before anything delivered live (ephemerals are never historical)
            if let Some((_, f)) = got.iter().enumerate().find(|(i, f)| i < ti && eph.contains(&f.id.to_u128())) {
                violation(&mut out, &["C03"], "follow/live-frame-before-threshold", json!({"round": d, "id": f.id.to_string()}));
            }
        }
        if got.iter().any(|f| f.topic == "xs.pulse") {
            violation(&mut out, &["C11"], "follow/pulse-without-heartbeat-option", json!({"round": d}));
        }
    }
    // the followers opened under contention: every stored in-scope frame after the start, once, in order
    let mut extra_frames = 0u64;
    for (escope, estart, egot, ehow) in &extra_results {
        let ed = json!({"round": d, "extra_follower": {"scope": escope.map(|s| s.to_string()), "last_id": estart.map(crate::model::id_str), "ended": ehow}});
        if *ehow != "sentinel" {
            if *ehow == "timeout" {
                inconclusive = Some("an extra follower did not reach its sentinel within 30 s".to_string());
            } else {
                violation(&mut out, &["C03"], "follow/stream-ended-while-following-without-limit", ed.clone());
            }
            continue;
        }
        let in_sc = |ctx: u128| escope.map(|s| s.to_u128() == ctx).unwrap_or(true);
        let mut want: BTreeSet<u128> = BTreeSet::new();
        for (id, ctx) in &hist_ids {
            if in_sc(*ctx) && !removed.contains(id) {
                want.insert(*id);
            }
        }
        for a in &acks_v {
            if in_sc(a.ctx) && !a.ephemeral {
                want.insert(a.id);
            }
        }
        if in_sc(sent.context_id.to_u128()) {
            want.insert(sent.id.to_u128());
        }
        want.insert(sent_a.id.to_u128());
        if let Some(st) = estart {
            want.retain(|i| *i > *st);
        }
        want.retain(|i| !conc_removed.contains(i));
        let real: Vec<u128> = egot.iter().filter(|f| !is_synth(f)).map(|f| f.id.to_u128()).collect();
        extra_frames += real.len() as u64;
        let rs: BTreeSet<u128> = real.iter().copied().collect();
        if let Some(w) = real.windows(2).find(|w| w[1] <= w[0]) {
            violation(&mut out, &["C03", "C02"], if w[1] == w[0] { "follow/frame-delivered-twice" } else { "follow/ids-not-increasing" }, json!({"case": ed, "pair": ids(w)}));
        }
        let missing: Vec<u128> = want.iter().copied().filter(|i| !rs.contains(i)).collect();
        if !missing.is_empty() {
            violation(&mut out, &["C03"], "follow/stored-frame-not-delivered", json!({"case": ed, "missing": ids(&missing[..missing.len().min(5)]), "missing_count": missing.len(), "delivered": real.len()}));
        }
        if let Some(f) = egot.iter().find(|f| !is_synth(f) && (!in_sc(f.context_id.to_u128()) || estart.map(|s| f.id.to_u128() <= s).unwrap_or(false) || removed.contains(&f.id.to_u128()))) {
            violation(&mut out, &["C03", "C06"], "follow/frame-outside-scope-or-range", json!({"case": ed, "frame": f}));
        }
        if egot.iter().filter(|f| f.topic == "xs.threshold").count() != 1 {
            violation(&mut out, &["C03"], "follow/threshold-count-wrong", json!({"case": ed, "thresholds": egot.iter().filter(|f| f.topic == "xs.threshold").count(), "expected": 1}));
        }
    }
    // stored-state side: synthetic frames are never stored
    let stored_synth = store2.read_sync(None, None, None).filter(|f| is_synth(f)).count();
    if stored_synth > 0 {
        violation(&mut out, &["C11"], "store/synthetic-frame-was-stored", json!({"count": stored_synth}));
    }
    let both = rid.iter().filter(|i| u.contains(i)).count();
    xs::verif::set_now(None);
    crate::session::rm_dir(&dir);
    json!({
        "mode": "c03",
        "seed": seed,
        "config": d,
        "frames": rid.len() as u64 + extra_frames,
        "window_hits": u.len(),
        "removed_during_scan": conc_removed.len(),
        "delivered_from_window": both,
        "window_entered": entered,
        "window_blocked": blocked,
        "class": class.to_string(),
        "hits": hits,
        "violations": out,
        "inconclusive": inconclusive,
        "nontrivial": !u.is_empty() || (!p.is_empty() && q.len() > 1),
        "shape": format!("hist={}/{}/{}{}", hist, if scope.is_some() { "ctx" } else { "all" }, start_kind, if with_expired { "/expired-in-history" } else { "" }),
    })
}

// ---------------------------------------------------------------------------
// C11 round: limit / tail / heartbeat / slow consumer (A.8)
// ---------------------------------------------------------------------------

pub fn round_c11(rt: &tokio::runtime::Runtime, hooks: &Hooks, seed: u64) -> Value {
    let mut rng = Rng::new(seed);
    let slow = rng.chance(120);
    if slow {
        return round_c11_slow(rt, hooks, seed);
    }
    let (store, dir) = new_store("e2c11");
    let ctx_a = store.append(Frame::builder("xs.context", ZERO_CONTEXT).build()).unwrap().id;
    let n = [1usize, 2, 5, 100, 101][rng.below(5)];
    let scope: Option<Scru128Id> = if rng.chance(500) { Some(ctx_a) } else { None };
    let hist_matches = match rng.below(5) {
        0 => 0,
        1 => n.saturating_sub(1),
        2 => n,
        3 => n + 1,
        _ => 150,
    };
    let follow = rng.below(3); // 0 off, 1 on, 2 heartbeat
    let tail = rng.chance(250);
    let use_last = rng.chance(300);
    let use_limit = rng.chance(850);
    hooks.configure(seed, [0u64, 300][rng.below(2)], 200, vec!["read.", "append."], None);

    // history: `hist_matches` frames in scope after the start position (+ noise outside scope / before last-id)
    let mut in_scope_ids: Vec<u128> = vec![];
    let mut last_id = None;
    if use_last {
        for i in 0..3 {
            let f = store.append(Frame::builder("pre", scope.unwrap_or(ZERO_CONTEXT)).meta(json!({"pre": i})).build()).unwrap();
            last_id = Some(f.id);
        }
    }
    let other = if scope.is_some() { ZERO_CONTEXT } else { ctx_a };
    // some rounds interleave time:N frames that have expired (virtual clock) but were never collected:
    // they must neither be delivered nor counted against the limit
    let with_expired = rng.chance(350);
    for i in 0..hist_matches {
        if with_expired && i % 3 == 0 {
            let _ = store.append(Frame::builder("m", scope.unwrap_or(ZERO_CONTEXT)).meta(json!({"expired": i})).ttl(TTL::Time(Duration::from_millis(1))).build());
        }
        let f = store.append(Frame::builder("m", scope.unwrap_or(if i % 2 == 0 { ZERO_CONTEXT } else { ctx_a })).meta(json!({"i": i})).build()).unwrap();
        in_scope_ids.push(f.id.to_u128());
        if scope.is_some() && i % 3 == 0 {
            let _ = store.append(Frame::builder("noise", other).build());
        }
    }
    if !use_last && scope.is_none() {
        // the registration frame is part of the all-contexts history
        in_scope_ids.insert(0, ctx_a.to_u128());
    } else if !use_last && scope.is_some() {
        // ctx scope: registration frame lives in the zero context: not in scope
    }
    in_scope_ids.sort();
    let hist_expected: Vec<u128> = if tail { vec![] } else { in_scope_ids.clone() };

    let follow_opt = match follow {
        0 => FollowOption::Off,
        1 => FollowOption::On,
        _ => FollowOption::WithHeartbeat(Duration::from_millis(5)),
    };
    let limit = if use_limit { Some(n) } else { None };
    let opts = ReadOptions::builder()
        .follow(follow_opt.clone())
        .tail(tail)
        .maybe_last_id(last_id)
        .maybe_limit(limit)
        .maybe_context_id(scope)
        .build();
    let qs = opts.to_query_string();
    if with_expired {
        let now = std::time::SystemTime::now().duration_since(std::time::UNIX_EPOCH).unwrap().as_millis() as u64;
        xs::verif::set_now(Some(now + 60_000));
    }
    let mut rx = rt.block_on(store.read(opts));
    // live phase: append frames in scope (and noise), sequentially, after read() returned
    let live_n = if follow > 0 { n + 4 } else { 3 };
    let mut live_ids: Vec<u128> = vec![];
    let got: Arc<Mutex<Vec<Frame>>> = Arc::new(Mutex::new(vec![]));
    let closed = Arc::new(AtomicBool::new(false));
    let task = {
        let got = got.clone();
        let closed = closed.clone();
        rt.spawn(async move {
            while let Some(f) = rx.recv().await {
                got.lock().unwrap().push(f);
            }
            closed.store(true, Ordering::SeqCst);
        })
    };
    for i in 0..live_n {
        let f = store.append(Frame::builder("m", scope.unwrap_or(if i % 2 == 0 { ZERO_CONTEXT } else { ctx_a })).meta(json!({"live": i})).build()).unwrap();
        live_ids.push(f.id.to_u128());
        if scope.is_some() {
            let _ = store.append(Frame::builder("noise", other).build());
        }
        if i % 2 == 0 {
            std::thread::sleep(Duration::from_millis(2));
        }
    }
    let (_e, _b, class, _mc, hits) = hooks.disarm();
    // expected sequence
    let mut expected: Vec<u128> = hist_expected.clone();
    if follow > 0 {
        expected.extend(live_ids.iter());
    }
    let e_cut: Vec<u128> = match limit {
        Some(l) => expected.iter().copied().take(l).collect(),
        None => expected.clone(),
    };
    let must_close = follow == 0 || limit.map(|l| expected.len() >= l).unwrap_or(false);
    // wait for: the expected frames, then closure if it must close (bounded progress)
    let t_wait = Instant::now();
    loop {
        let g = got.lock().unwrap();
        let reals = g.iter().filter(|f| !is_synth(f)).count();
        let done = if must_close { closed.load(Ordering::SeqCst) } else { reals >= e_cut.len() };
        drop(g);
        if done || t_wait.elapsed() > Duration::from_secs(10) {
            break;
        }
        std::thread::sleep(Duration::from_millis(2));
    }
    // let any trailing pulses / extra frames show up
    std::thread::sleep(Duration::from_millis(30));
    let got_v = got.lock().unwrap().clone();
    let is_closed = closed.load(Ordering::SeqCst);
    task.abort();

    let mut out = vec![];
    let mut inconclusive = None;
    let d = json!({"query": qs, "n": n, "limit": limit, "history_matches": hist_matches, "follow": follow, "tail": tail, "last_id": use_last, "scope": scope.map(|s| s.to_string()), "closed": is_closed,
                   "expected": e_cut.len(), "received_frames": got_v.iter().filter(|f| !is_synth(f)).count(), "received_pulses": got_v.iter().filter(|f| f.topic == "xs.pulse").count()});
    let real: Vec<u128> = got_v.iter().filter(|f| !is_synth(f)).map(|f| f.id.to_u128()).collect();
    if let Some(l) = limit {
        if real.len() > l {
            violation(&mut out, &["C11"], "limit/more-than-n-frames-delivered", json!({"round": d}));
        }
        // anything after the n-th frame
        if let Some(pos) = got_v.iter().enumerate().filter(|(_, f)| !is_synth(f)).nth(l.saturating_sub(1)).map(|x| x.0) {
            if l > 0 && got_v.len() > pos + 1 {
                let trailing = &got_v[pos + 1..];
                if let Some(what) = trailing.iter().find(|f| f.topic != "xs.pulse") {
                    violation(&mut out, &["C11"], "limit/item-after-the-nth-frame", json!({"round": d, "item": what.topic}));
                } else if trailing.len() > 2 {
                    // one or two pulses can race the closing of the stream; a heartbeat that keeps going cannot
                    violation(&mut out, &["C11"], "limit/pulses-continue-after-the-nth-frame", json!({"round": d, "trailing_pulses": trailing.len()}));
                }
            }
        }
    }
    // a non-following read scans in a background thread: frames appended just after read()
    // returned may legitimately be included (in order, within the limit)
    let nonfollow_ok = follow == 0 && {
        let mut e2 = hist_expected.clone();
        e2.extend(live_ids.iter());
        let e2: Vec<u128> = match limit { Some(l) => e2.into_iter().take(l).collect(), None => e2 };
        real.len() >= e_cut.len() && real.len() <= e2.len() && real[..] == e2[..real.len()]
    };
    if real != e_cut && !nonfollow_ok {
        if real.len() <= e_cut.len() && real[..] == e_cut[..real.len()] {
            // a strict prefix: frames missing at the end
            if is_closed {
                violation(&mut out, &["C11", "C03"], "limit/stream-ended-before-the-expected-frames", json!({"round": d}));
            } else {
                inconclusive = Some(format!("expected frames not received within 10 s: {}", d));
            }
        } else if e_cut.len() < real.len() && real[..e_cut.len()] == e_cut[..] && limit.is_some() {
            // already reported as more-than-n
        } else {
            let sig = if tail && real.iter().any(|i| in_scope_ids.contains(i)) { "tail/historical-frame-delivered" } else { "limit/delivered-frames-are-not-the-first-n-matching" };
            violation(&mut out, &["C11", "C03"], sig, json!({"round": d, "got": ids(&real[..real.len().min(8)]), "expected": ids(&e_cut[..e_cut.len().min(8)])}));
        }
    }
    if must_close && !is_closed && real.len() >= e_cut.len() {
        // bounded progress: n frames delivered, three more matching frames appended and acknowledged, still open
        violation(&mut out, &["C11"], "limit/stream-not-closed-after-the-nth-frame", json!({"round": d}));
    }
    // synthetic frames
    let th = got_v.iter().filter(|f| f.topic == "xs.threshold").count();
    let want_th = if follow > 0 && limit.is_none() && !tail { 1 } else { 0 };
    if th != want_th {
        violation(&mut out, &["C11", "C03"], "synthetic/threshold-count-wrong", json!({"round": d, "thresholds": th, "expected": want_th}));
    }
    if follow != 2 && got_v.iter().any(|f| f.topic == "xs.pulse") {
        violation(&mut out, &["C11"], "synthetic/pulse-without-heartbeat-option", json!({"round": d}));
    }
    // gap rule (A.8): a real frame delivered after a smaller expected id was skipped, or a pulse
    // created after an expected frame that this stream never delivers at all
    {
        let all_delivered: BTreeSet<u128> = real.iter().copied().collect();
        let mut delivered: BTreeSet<u128> = BTreeSet::new();
        for f in &got_v {
            let id = f.id.to_u128();
            if !is_synth(f) {
                if let Some(m) = e_cut.iter().find(|m| **m < id && !delivered.contains(m)) {
                    violation(&mut out, &["C11", "C03"], "gap/frame-after-undelivered-frame", json!({"round": d, "item_id": f.id.to_string(), "undelivered": crate::model::id_str(*m)}));
                    break;
                }
                delivered.insert(id);
            }
        }
        if inconclusive.is_none() {
            if let Some(m) = e_cut.iter().find(|m| !all_delivered.contains(m)) {
                // "past" is a position in this stream: after the last frame it delivered (a pulse that is merely
                // *created* later than m while older history is still being replayed is not past m)
                let last_real = got_v.iter().rposition(|f| !is_synth(f)).map(|i| i + 1).unwrap_or(0);
                let past = got_v[last_real..].iter().filter(|f| f.topic == "xs.pulse" && f.id.to_u128() > *m).count();
                if past > 2 {
                    violation(&mut out, &["C11"], "gap/pulses-continue-past-undelivered-frame", json!({"round": d, "pulses_past_it": past, "undelivered": crate::model::id_str(*m), "mode": "normal"}));
                }
            }
        }
    }
    let stored_synth = store.read_sync(None, None, None).filter(|f| is_synth(f)).count();
    if stored_synth > 0 {
        violation(&mut out, &["C11"], "store/synthetic-frame-was-stored", json!({"count": stored_synth}));
    }
    xs::verif::set_now(None);
    crate::session::rm_dir(&dir);
    let split = if limit.is_some() { format!("hist={}/live={}", hist_expected.len().min(n), n.saturating_sub(hist_expected.len())) } else { "nolimit".into() };
    json!({
        "mode": "c11",
        "seed": seed,
        "config": d,
        "frames": real.len(),
        "class": class.to_string(),
        "hits": hits,
        "violations": out,
        "inconclusive": inconclusive,
        "nontrivial": true,
        "shape": format!("n={}/hist={}/follow={}/tail={}/last={}/limit={}/expired={}/{}", n, match hist_matches { 0 => "0".to_string(), x if x + 1 == n => "n-1".into(), x if x == n => "n".into(), x if x == n + 1 => "n+1".into(), _ => "150".into() }, follow, tail, use_last, use_limit, with_expired, if scope.is_some() { "ctx" } else { "all" }),
        "split": split,
    })
}

/// slow consumer: the follower stops receiving while more than the broadcast capacity is appended
fn round_c11_slow(rt: &tokio::runtime::Runtime, hooks: &Hooks, seed: u64) -> Value {
    let mut rng = Rng::new(seed ^ 0x5105);
    let (store, dir) = new_store("e2c11s");
    let heartbeat = rng.chance(500);
    let hist = [0usize, 50, 300][rng.below(3)];
    let during_replay = hist > 0 && rng.chance(500);
    hooks.configure(seed, 0, 0, vec![], None);
    let mut expected: Vec<u128> = vec![];
    for i in 0..hist {
        expected.push(store.append(Frame::builder("m", ZERO_CONTEXT).meta(json!({"h": i})).build()).unwrap().id.to_u128());
    }
    let opts = ReadOptions::builder()
        .follow(if heartbeat { FollowOption::WithHeartbeat(Duration::from_millis(5)) } else { FollowOption::On })
        .build();
    let mut rx = rt.block_on(store.read(opts));
    let mut got: Vec<Frame> = vec![];
    // consume a little, then stall
    let first = if during_replay { 10 } else { hist + 1 };
    rt.block_on(async {
        for _ in 0..first {
            match tokio::time::timeout(Duration::from_secs(10), rx.recv()).await {
                Ok(Some(f)) => got.push(f),
                _ => break,
            }
        }
    });
    let burst = 1024 + 100 + 50 + rng.below(200);
    for i in 0..burst {
        expected.push(store.append(Frame::builder("m", ZERO_CONTEXT).meta(json!({"b": i})).build()).unwrap().id.to_u128());
    }
    std::thread::sleep(Duration::from_millis(30));
    // drain
    let mut closed = false;
    let drain_deadline = tokio::time::Instant::now() + Duration::from_millis(2500);
    rt.block_on(async {
        loop {
            match tokio::time::timeout_at(drain_deadline, rx.recv()).await {
                Ok(Some(f)) => got.push(f),
                Ok(None) => {
                    closed = true;
                    break;
                }
                Err(_) => break,
            }
        }
    });
    // after the stall, three more frames
    let mut after = vec![];
    for i in 0..3 {
        after.push(store.append(Frame::builder("m", ZERO_CONTEXT).meta(json!({"after": i})).build()).unwrap().id.to_u128());
    }
    expected.extend(after.iter());
    if !closed {
        let d2 = tokio::time::Instant::now() + Duration::from_millis(500);
        rt.block_on(async {
            loop {
                match tokio::time::timeout_at(d2, rx.recv()).await {
                    Ok(Some(f)) => got.push(f),
                    Ok(None) => {
                        closed = true;
                        break;
                    }
                    Err(_) => break,
                }
            }
        });
    }
    let (_e, _b, class, _mc, hits) = hooks.disarm();
    let mut out = vec![];
    let real: Vec<u128> = got.iter().filter(|f| !is_synth(f)).map(|f| f.id.to_u128()).collect();
    let d = json!({"slow_consumer": true, "heartbeat": heartbeat, "history": hist, "stall_during_replay": during_replay, "burst": burst, "received_frames": real.len(), "pulses": got.iter().filter(|f| f.topic == "xs.pulse").count(), "closed": closed});
    // whatever was delivered must be a prefix of the expected sequence: never a gap
    let prefix_ok = real.len() <= expected.len() && real[..] == expected[..real.len()];
    if !prefix_ok {
        let pos = real.iter().zip(expected.iter()).position(|(a, b)| a != b).unwrap_or(0);
        violation(&mut out, &["C11", "C03"], "slow/continued-past-an-undelivered-frame", json!({"round": d, "first_mismatch_at": pos}));
    }
    // gap rule for pulses: heartbeats must not keep coming past a frame this stream never delivers.
    // One or two pulses that were already in flight when the lag was detected are tolerated.
    {
        let all_delivered: BTreeSet<u128> = real.iter().copied().collect();
        if let Some(m) = expected.iter().find(|m| !all_delivered.contains(m)) {
            // "past" is a position in this stream: after the last frame it delivered. While the consumer is still
            // being fed older history, heartbeats created after m are not past m.
            let last_real = got.iter().rposition(|f| !is_synth(f)).map(|i| i + 1).unwrap_or(0);
            let past: Vec<&Frame> = got[last_real..].iter().filter(|f| f.topic == "xs.pulse" && f.id.to_u128() > *m).collect();
            if past.len() > 2 {
                violation(&mut out, &["C11"], "gap/pulses-continue-past-undelivered-frame", json!({"round": d, "pulses_past_it": past.len(), "first_pulse_id": past[0].id.to_string(), "undelivered": crate::model::id_str(*m), "mode": "lag"}));
            }
        }
        if !closed && real.len() < expected.len() {
            violation(&mut out, &["C11"], "slow/stream-not-closed-after-lagging", json!({"round": d}));
        }
    }
    let lagged = real.len() < expected.len();
    crate::session::rm_dir(&dir);
    json!({
        "mode": "c11slow",
        "seed": seed,
        "config": d,
        "frames": real.len(),
        "class": class.to_string(),
        "hits": hits,
        "violations": out,
        "inconclusive": Value::Null,
        "nontrivial": lagged,
        "shape": format!("slow/hb={}/hist={}/replay={}", heartbeat, hist, during_replay),
        "split": "slow",
        "lagged": lagged,
    })
}

// ---------------------------------------------------------------------------
// worker entry point
// ---------------------------------------------------------------------------

/// C07 under concurrency: a registration frame is removed while other threads append into that context. An append
/// whose call starts after the registration was observed absent (get(id) == None) must be rejected.
pub fn round_c07_race(seed: u64) -> Value {
    let mut rng = Rng::new(seed);
    let (store, dir) = new_store("e2c07");
    let mut out: Vec<Value> = vec![];
    let n_ctx = 3 + rng.below(4);
    let mut after_gone = 0u64;
    let mut accepted_before_gone = 0u64;
    let mut trials = 0u64;
    for t in 0..n_ctx {
        let reg = store.append(Frame::builder("xs.context", ZERO_CONTEXT).build()).unwrap();
        let ctx = reg.id;
        // some frames in it first
        for i in 0..rng.below(4) {
            let _ = store.append(Frame::builder("t", ctx).meta(json!({"i": i})).build());
        }
        let appenders = 1 + rng.below(3);
        let delay_us = rng.below(400) as u64;
        let results: Arc<Mutex<Vec<(bool, bool, String)>>> = Arc::new(Mutex::new(vec![]));
        let stop = Arc::new(AtomicBool::new(false));
        let mut hs = vec![];
        for a in 0..appenders {
            let store = store.clone();
            let results = results.clone();
            let stop = stop.clone();
            hs.push(std::thread::spawn(move || {
                let t0 = Instant::now();
                let mut rejected_after_gone = 0;
                while t0.elapsed() < Duration::from_millis(400) && rejected_after_gone < 3 {
                    let gone = store.get(&ctx).is_none();
                    let r = store.append(Frame::builder("t", ctx).meta(json!({"racer": a})).build());
                    let ok = r.is_ok();
                    results.lock().unwrap().push((gone, ok, r.map(|f| f.id.to_string()).unwrap_or_default()));
                    if gone && !ok {
                        rejected_after_gone += 1;
                    }
                    if stop.load(Ordering::SeqCst) && gone {
                        // the remover has returned and the registration is gone: a few more, then done
                    }
                }
            }));
        }
        std::thread::sleep(Duration::from_micros(delay_us));
        let removed = store.remove(&ctx);
        stop.store(true, Ordering::SeqCst);
        for h in hs {
            let _ = h.join();
        }
        trials += 1;
        let rs = results.lock().unwrap().clone();
        for (gone, ok, id) in &rs {
            if *gone {
                after_gone += 1;
                if *ok && out.len() < 3 {
                    out.push(json!({"props": ["C07"], "signature": "race/append-accepted-after-its-registration-was-observed-gone", "detail": {"context": ctx.to_string(), "accepted_frame": id, "trial": t, "appenders": appenders, "remove_result": format!("{:?}", removed.is_ok())}}));
                }
            } else if *ok {
                accepted_before_gone += 1;
            }
        }
        // afterwards, sequentially: rejected, and no frame of the context newer than the removal is visible
        if store.append(Frame::builder("t", ctx).build()).is_ok() && out.len() < 3 {
            out.push(json!({"props": ["C07"], "signature": "race/append-accepted-after-remove-returned", "detail": {"context": ctx.to_string()}}));
        }
    }
    drop(store);
    crate::session::rm_dir(&dir);
    json!({
        "mode": "c07race",
        "seed": seed,
        "config": {"contexts": n_ctx},
        "frames": accepted_before_gone,
        "race.trials": trials,
        "race.appends_called_after_the_registration_was_gone": after_gone,
        "class": format!("c07race{}", n_ctx),
        "violations": out,
        "inconclusive": null,
        "nontrivial": after_gone > 0,
    })
}

/// C05 under concurrency: the newest frames of a topic are appended and removed while other threads look up the
/// head. A base frame of the topic is never removed, so the head is never "nothing", and whatever is returned has
/// exactly that topic and context.
pub fn round_c05_race(seed: u64) -> Value {
    let mut rng = Rng::new(seed);
    let (store, dir) = new_store("e2c05");
    let mut out: Vec<Value> = vec![];
    let ctx = store.append(Frame::builder("xs.context", ZERO_CONTEXT).build()).unwrap().id;
    let topics = ["t", "t.x", "ta"];
    for t in topics {
        store.append(Frame::builder(t, ctx).meta(json!({"base": t})).build()).unwrap();
    }
    let stop = Arc::new(AtomicBool::new(false));
    let lookups = Arc::new(AtomicU64::new(0));
    let bad: Arc<Mutex<Vec<Value>>> = Arc::new(Mutex::new(vec![]));
    let mut hs = vec![];
    for _ in 0..2 + rng.below(3) {
        let store = store.clone();
        let stop = stop.clone();
        let lookups = lookups.clone();
        let bad = bad.clone();
        hs.push(std::thread::spawn(move || {
            while !stop.load(Ordering::SeqCst) {
                for t in topics {
                    lookups.fetch_add(1, Ordering::Relaxed);
                    match store.head(t, ctx) {
                        None => {
                            let mut b = bad.lock().unwrap();
                            if b.len() < 3 {
                                b.push(json!({"props": ["C05"], "signature": "race/head-is-nothing-although-an-older-frame-of-the-topic-exists", "detail": {"topic": t}}));
                            }
                        }
                        Some(f) if f.topic != t || f.context_id != ctx => {
                            let mut b = bad.lock().unwrap();
                            if b.len() < 3 {
                                b.push(json!({"props": ["C05"], "signature": "race/head-returned-frame-of-other-topic-or-context", "detail": {"asked": t, "got_topic": f.topic}}));
                            }
                        }
                        Some(_) => {}
                    }
                }
            }
        }));
    }
    let rounds = 150 + rng.below(150);
    let mut removed = 0u64;
    for i in 0..rounds {
        let t = topics[i % 3];
        // (explicit removals only: a head:N eviction would be allowed to take the base frame away, and a lookup that
        // races several evictions may then legitimately find every frame of its snapshot gone)
        if let Ok(f) = store.append(Frame::builder(t, ctx).meta(json!({"i": i})).build()) {
            if store.remove(&f.id).is_ok() {
                removed += 1;
            }
        }
    }
    stop.store(true, Ordering::SeqCst);
    for h in hs {
        let _ = h.join();
    }
    out.extend(bad.lock().unwrap().iter().cloned());
    let n_lookups = lookups.load(Ordering::SeqCst);
    drop(store);
    crate::session::rm_dir(&dir);
    json!({
        "mode": "c05race",
        "seed": seed,
        "config": {"rounds": rounds},
        "frames": rounds as u64,
        "race.head_lookups_during_removals": n_lookups,
        "race.removals": removed,
        "class": "c05race",
        "violations": out,
        "inconclusive": null,
        "nontrivial": n_lookups > 0 && removed > 0,
    })
}

pub fn worker_main(mode: &str, seed: u64, first: u64, count: u64) -> ! {
    let rt = tokio::runtime::Builder::new_multi_thread().worker_threads(4).enable_all().build().unwrap();
    let hooks = install_hooks();
    let panics = Arc::new(AtomicU64::new(0));
    {
        let p = panics.clone();
        std::panic::set_hook(Box::new(move |info| {
            p.fetch_add(1, Ordering::SeqCst);
            eprintln!("[e2 panic] {}", info);
        }));
    }
    for i in first..first + count {
        let s = mix(seed, i);
        let before = panics.load(Ordering::SeqCst);
        let r = std::panic::catch_unwind(std::panic::AssertUnwindSafe(|| match mode {
            "c02" => round_c02(&rt, &hooks, s),
            "c03" => round_c03(&rt, &hooks, s),
            "c11slow" => round_c11_slow(&rt, &hooks, s),
            "c07race" => round_c07_race(s),
            "c05race" => round_c05_race(s),
            _ => round_c11(&rt, &hooks, s),
        }));
        let mut v = match r {
            Ok(v) => v,
            Err(_) => json!({"mode": mode, "seed": s, "harness_panic": true, "violations": [], "inconclusive": "round panicked"}),
        };
        v["panics"] = json!(panics.load(Ordering::SeqCst) - before);
        println!("{}", v);
    }
    std::process::exit(0);
}


/// one round with an explicit round seed (for `xsmon replay`)
pub fn round_main(mode: &str, round_seed: u64) -> ! {
    let rt = tokio::runtime::Builder::new_multi_thread().worker_threads(4).enable_all().build().unwrap();
    let hooks = install_hooks();
    let v = match mode {
        "c02" => round_c02(&rt, &hooks, round_seed),
        "c03" => round_c03(&rt, &hooks, round_seed),
        "c11slow" => round_c11_slow(&rt, &hooks, round_seed),
        "c07race" => round_c07_race(round_seed),
        "c05race" => round_c05_race(round_seed),
        _ => round_c11(&rt, &hooks, round_seed),
    };
    println!("{}", v);
    std::process::exit(0);
}
