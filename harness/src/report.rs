//! Verdict plumbing: violations, known findings, evidence files, exit codes.
//!
//! exit 0 = held on everything explored (KNOWN-FINDING lines possible)
//! exit 1 = at least one unlisted violation (VIOLATION line + replay file)
//! exit 2 = harness error / inconclusive (never a VIOLATION line)

use std::collections::{BTreeMap, BTreeSet, HashSet};
use std::time::Instant;

use serde_json::{json, Map, Value};

pub const VERIF_DIR: &str = "/verif";

/// where evidence/ and replays/ go: /verif, or $XSMON_OUT for background sweeps that must not
/// touch the committed evidence
pub fn out_dir() -> String {
    std::env::var("XSMON_OUT").unwrap_or_else(|_| VERIF_DIR.to_string())
}

#[derive(Clone, Debug)]
pub struct Violation {
    pub signature: String,
    pub detail: Value,
}

pub struct Report {
    pub property: String,
    pub tier: String,
    pub seed: u64,
    pub level: &'static str,
    start: Instant,
    pub evaluations: u64,
    distinct: HashSet<u64>,
    pub rule: String,
    pub samples: Vec<Value>,
    pub extra: Map<String, Value>,
    pub counters: BTreeMap<String, u64>,
    pub sets: BTreeMap<String, BTreeSet<String>>,
    pub assumptions: Vec<String>,
    pub violations: Vec<Violation>,
    pub inconclusive: Vec<String>,
    /// conditions that must have been observed for the run to count (name -> satisfied)
    pub required: BTreeMap<String, bool>,
}

pub fn tier_from_env(args_tier: Option<&str>) -> String {
    let t = args_tier
        .map(|s| s.to_string())
        .or_else(|| std::env::var("VERIF_TIER").ok())
        .unwrap_or_else(|| "quick".into());
    if t == "thorough" {
        t
    } else {
        "quick".into()
    }
}

pub fn seed_from_env() -> u64 {
    std::env::var("VERIF_SEED")
        .ok()
        .and_then(|s| s.trim().parse::<i64>().ok())
        .map(|v| v as u64)
        .unwrap_or(1)
}

impl Report {
    pub fn new(property: &str, tier: &str, seed: u64, level: &'static str, rule: &str) -> Self {
        Report {
            property: property.into(),
            tier: tier.into(),
            seed,
            level,
            start: Instant::now(),
            evaluations: 0,
            distinct: HashSet::new(),
            rule: rule.into(),
            samples: vec![],
            extra: Map::new(),
            counters: BTreeMap::new(),
            sets: BTreeMap::new(),
            assumptions: vec![],
            violations: vec![],
            inconclusive: vec![],
            required: BTreeMap::new(),
        }
    }

    pub fn count(&mut self, key: &str, n: u64) {
        *self.counters.entry(key.to_string()).or_insert(0) += n;
    }
    pub fn seen(&mut self, set: &str, item: impl Into<String>) {
        self.sets.entry(set.to_string()).or_default().insert(item.into());
    }
    pub fn eval(&mut self) {
        self.evaluations += 1;
    }
    pub fn nontrivial(&mut self, content_hash: u64) {
        self.distinct.insert(content_hash);
    }
    pub fn sample(&mut self, v: Value) {
        if self.samples.len() < 4 {
            self.samples.push(v);
        }
    }
    pub fn violation(&mut self, signature: impl Into<String>, detail: Value) {
        let signature = signature.into();
        // keep at most 5 witnesses per signature
        if self.violations.iter().filter(|v| v.signature == signature).count() < 5 {
            self.violations.push(Violation { signature, detail });
        }
    }
    pub fn inconclusive(&mut self, why: impl Into<String>) {
        self.inconclusive.push(why.into());
    }
    pub fn require(&mut self, name: &str, ok: bool) {
        let e = self.required.entry(name.to_string()).or_insert(false);
        *e = *e || ok;
    }
    pub fn merge_counts(&mut self, other: &BTreeMap<String, u64>) {
        for (k, v) in other {
            self.count(k, *v);
        }
    }

    /// Writes the evidence file, prints verdict lines, returns the process exit code.
    pub fn finish(mut self) -> i32 {
        let known = load_known(&self.property);
        let mut unlisted: Vec<&Violation> = vec![];
        let mut known_seen: BTreeMap<String, String> = BTreeMap::new();
        for v in &self.violations {
            if let Some(what) = known.get(&v.signature) {
                known_seen.insert(v.signature.clone(), what.clone());
            } else {
                unlisted.push(v);
            }
        }
        for (sig, what) in &known_seen {
            println!("KNOWN-FINDING: property={} {} {}", self.property, sig, what);
        }

        let mut exit = 0;
        let mut replay_paths = vec![];
        // witnesses of an earlier run with the same (seed, tier) are stale: remove them
        {
            let dir = format!("{}/replays/{}", out_dir(), self.property);
            let prefix = format!("seed{}-{}-", self.seed, self.tier);
            if let Ok(rd) = std::fs::read_dir(&dir) {
                for e in rd.flatten() {
                    if e.file_name().to_string_lossy().starts_with(&prefix) {
                        let _ = std::fs::remove_file(e.path());
                    }
                }
            }
        }
        if !unlisted.is_empty() {
            exit = 1;
            let dir = format!("{}/replays/{}", out_dir(), self.property);
            let _ = std::fs::create_dir_all(&dir);
            let mut printed = BTreeSet::new();
            for (i, v) in unlisted.iter().enumerate() {
                if !printed.insert(v.signature.clone()) {
                    continue;
                }
                let path = format!("{}/seed{}-{}-{}.json", dir, self.seed, self.tier, i);
                let body = json!({
                    "property": self.property,
                    "signature": v.signature,
                    "seed": self.seed,
                    "tier": self.tier,
                    "detail": v.detail,
                });
                let _ = std::fs::write(&path, serde_json::to_vec_pretty(&body).unwrap());
                println!("VIOLATION property={} replay={}", self.property, path);
                println!("  signature: {}", v.signature);
                replay_paths.push(path);
            }
        }

        let missing: Vec<String> = self
            .required
            .iter()
            .filter(|(_, ok)| !**ok)
            .map(|(k, _)| k.clone())
            .collect();
        if exit == 0 && (self.evaluations == 0 || !missing.is_empty()) {
            eprintln!(
                "INCONCLUSIVE property={} evaluations={} coverage requirements not met: {:?}",
                self.property, self.evaluations, missing
            );
            exit = 2;
        }
        if exit == 0 && !self.inconclusive.is_empty() && self.inconclusive.len() as u64 * 2 > self.evaluations {
            eprintln!("INCONCLUSIVE property={}: {} of {} cases were inconclusive", self.property, self.inconclusive.len(), self.evaluations);
            exit = 2;
        }
        let panics: Vec<String> = crate::par::PANICS.lock().map(|g| g.clone()).unwrap_or_default();
        if !panics.is_empty() {
            eprintln!("HARNESS-ERROR property={}: {} case(s) panicked inside the harness, e.g. {}", self.property, panics.len(), panics[0]);
            if exit == 0 {
                exit = 2;
            }
        }

        // evidence
        let mut cov = Map::new();
        cov.insert("evaluations".into(), json!(self.evaluations));
        cov.insert("distinct_nontrivial".into(), json!(self.distinct.len()));
        cov.insert("rule".into(), json!(self.rule));
        if !panics.is_empty() {
            cov.insert("harness_panics".into(), json!(panics));
        }
        if self.samples.is_empty() {
            self.samples.push(json!("no sample recorded"));
        }
        cov.insert("samples".into(), Value::Array(self.samples.clone()));
        for (k, v) in &self.counters {
            cov.insert(k.clone(), json!(v));
        }
        for (k, v) in &self.sets {
            cov.insert(format!("{}_count", k), json!(v.len()));
            let items: Vec<&String> = v.iter().take(60).collect();
            cov.insert(k.clone(), json!(items));
        }
        for (k, v) in &self.extra {
            cov.insert(k.clone(), v.clone());
        }
        cov.insert("inconclusive_cases".into(), json!(self.inconclusive.len()));
        if !self.inconclusive.is_empty() {
            let items: Vec<&String> = self.inconclusive.iter().take(10).collect();
            cov.insert("inconclusive_reasons".into(), json!(items));
        }
        cov.insert(
            "known_findings_seen".into(),
            json!(known_seen.keys().collect::<Vec<_>>()),
        );
        cov.insert("coverage_requirements".into(), json!(self.required));
        if !replay_paths.is_empty() {
            cov.insert("replays".into(), json!(replay_paths));
        }
        let ev = json!({
            "property_id": self.property,
            "tier": self.tier,
            "seed": self.seed as i64,
            "level": self.level,
            "coverage": Value::Object(cov),
            "assumptions": self.assumptions,
            "wall_s": (self.start.elapsed().as_millis() as f64) / 1000.0,
            "violations": unlisted.len(),
            "verdict": match exit { 0 => "held-on-observed", 1 => "violated", _ => "inconclusive" },
        });
        let dir = format!("{}/evidence", out_dir());
        let _ = std::fs::create_dir_all(&dir);
        let path = format!("{}/{}.json", dir, self.property);
        if let Err(e) = std::fs::write(&path, serde_json::to_vec_pretty(&ev).unwrap()) {
            eprintln!("cannot write evidence {}: {}", path, e);
            if exit == 0 {
                exit = 2;
            }
        }
        println!(
            "{} {} seed={} evaluations={} distinct_nontrivial={} violations={} known={} inconclusive={} wall={:.1}s -> exit {}",
            self.property,
            self.tier,
            self.seed,
            self.evaluations,
            self.distinct.len(),
            unlisted.len(),
            known_seen.len(),
            self.inconclusive.len(),
            self.start.elapsed().as_secs_f64(),
            exit
        );
        exit
    }
}

/// signature -> description, for `property`
pub fn load_known(property: &str) -> BTreeMap<String, String> {
    let mut out = BTreeMap::new();
    let path = format!("{}/known_findings.json", VERIF_DIR);
    let Ok(bytes) = std::fs::read(&path) else {
        return out;
    };
    let Ok(v) = serde_json::from_slice::<Value>(&bytes) else {
        eprintln!("known_findings.json does not parse; ignoring it");
        return out;
    };
    if let Some(arr) = v.get("known").and_then(|k| k.as_array()) {
        for e in arr {
            if e.get("property").and_then(|p| p.as_str()) == Some(property) {
                if let (Some(sig), Some(what)) = (
                    e.get("signature").and_then(|s| s.as_str()),
                    e.get("what").and_then(|s| s.as_str()),
                ) {
                    out.insert(sig.to_string(), what.to_string());
                }
            }
        }
    }
    out
}

pub fn fnv(s: &str) -> u64 {
    let mut h: u64 = 0xcbf29ce484222325;
    for b in s.as_bytes() {
        h ^= *b as u64;
        h = h.wrapping_mul(0x100000001b3);
    }
    h
}
