//! C13 (and the HTTP legs of other properties) decided by E4.
use serde_json::json;

use crate::e4::run_sequence;
use crate::par::{run_cases, workers};
use crate::report::Report;
use crate::rng::mix;

pub fn run(prop: &'static str, tier: &str, seed: u64) -> i32 {
    let t = tier == "thorough";
    let (seqs, per) = if t { (1600usize, 150usize) } else { (48, 100) };
    let mut rep = Report::new(
        prop,
        tier,
        seed,
        "exploration",
        "request sequences over every route (POST /{topic}, GET /, GET|DELETE /{id}, GET /head/{topic} with and without follow, POST|GET /cas, POST /import, GET /version, other methods, broken HTTP) with valid and invalid ids, contexts, TTLs, option strings, xs-meta payloads (bad base64 / UTF-8 / JSON, non-ASCII header bytes, too deep, huge) and bodies (empty .. 300 kB, chunked, client abort), sent by a raw HTTP/1.1 client over the unix socket; after every request: complete response, status class vs the Appendix-B model, route-specific body check, store == model (read through the session channel), /version on the same and on a fresh connection; non-trivial = sequence that contains appends, a rejected request, a delete, an import and a streamed read; distinct by request-trace hash",
    );
    rep.assumptions = vec![
        "the HTTP reference model is Appendix B of DESIGN.md (status classes, not exact codes, except 404 where documented)".into(),
        "the server is the real api::serve plus the three serve loops inside a child process; store state is read through the child's stdin/stdout channel, not through HTTP".into(),
    ];
    let results = run_cases(seqs, workers(), move |i| {
        let s = mix(seed, 1300 + i as u64);
        (s, run_sequence(s, per))
    });
    for (s, r) in results {
        rep.eval();
        if let Some(why) = &r.inconclusive {
            rep.inconclusive(format!("seed {}: {}", s, why));
        }
        rep.merge_counts(&r.counters);
        for (k, set) in &r.sets {
            for v in set {
                rep.seen(k, v.clone());
            }
        }
        let c = |k: &str| r.counters.get(k).copied().unwrap_or(0);
        if r.inconclusive.is_none() && c("http.appends") > 0 && c("http.imports") > 0 && c("http.frames_compared") > 0 && c("http.requests") > 20 {
            rep.nontrivial(r.hash);
        }
        if rep.samples.len() < 3 && r.trace.len() > 10 {
            rep.sample(json!({"sequence_seed": s, "requests": r.trace.iter().take(40).collect::<Vec<_>>()}));
        }
        for f in r.findings {
            if f.props.contains(&prop) {
                rep.violation(
                    format!("{}/{}", prop, f.signature),
                    json!({"engine": "E4", "sequence_seed": s, "finding": f.detail, "refutes": f.props, "last_requests": r.trace.iter().rev().take(12).rev().collect::<Vec<_>>()}),
                );
            }
        }
    }
    rep.require("requests sent", rep.counters.get("http.requests").copied().unwrap_or(0) > 0);
    rep.require("streamed reads compared", rep.counters.get("http.frames_compared").copied().unwrap_or(0) > 0);
    rep.require("head-follow streams observed", rep.counters.get("http.head_follow_streams").copied().unwrap_or(0) > 0);
    rep.finish()
}
