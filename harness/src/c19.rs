//! C19 — command calls: ordered results, exactly one terminal event, stamps, isolation, no replay.

use std::collections::{BTreeMap, BTreeSet};
use std::time::Duration;

use scru128::Scru128Id;
use serde_json::{json, Value};

use xs::store::{Frame, TTL, ZERO_CONTEXT};

use crate::e5::*;
use crate::report::fnv;
use crate::rng::Rng;

#[derive(Clone, Debug)]
pub struct CmdDef {
    pub k: usize,
    pub sleep_ms: u64,
    pub with_append: bool,
    /// the definition declares a module and its explicit append goes through a module function
    pub with_module: bool,
    pub fail: &'static str, // "none" | "eager" | "lazy"
    pub suffix: Option<&'static str>,
    pub ttl: Option<&'static str>,
    pub tag: String,
}

pub fn gen_def(rng: &mut Rng, tag: &str) -> CmdDef {
    CmdDef {
        k: rng.below(5),
        sleep_ms: *rng.pick(&[0u64, 0, 2, 5]),
        with_append: rng.chance(300),
        with_module: rng.chance(250),
        fail: *rng.pick(&["none", "none", "none", "eager", "lazy"]),
        suffix: *rng.pick(&[None, None, Some(".result")]),
        ttl: *rng.pick(&[None, None, Some("head:50"), Some("forever"), Some("ephemeral")]),
        tag: tag.to_string(),
    }
}

pub fn def_script(d: &CmdDef) -> String {
    let mut body = String::new();
    // isolation probe: every call must see the initial environment
    body.push_str("    let before = ($env.XS_PROBE? | default \"unset\")\n    $env.XS_PROBE = \"dirty\"\n");
    body.push_str("    let arg = ($frame.meta.arg? | default \"none\")\n");
    if d.with_append && d.with_module {
        body.push_str("    $\"side-($arg)\" | .append side.note --meta {arg: (cmod same $arg)}\n");
    } else if d.with_append {
        body.push_str("    $\"side-($arg)\" | .append side.note --meta {arg: $arg}\n");
    }
    if d.fail == "eager" {
        body.push_str("    if ($frame.meta.boom? | default false) { error make {msg: \"eager-failure\"} }\n");
    }
    let sleep = if d.sleep_ms > 0 { format!("sleep {}ms; ", d.sleep_ms) } else { String::new() };
    let lazy_fail = if d.fail == "lazy" { "if (($frame.meta.boom? | default false) and $i == 2) { error make {msg: \"lazy-failure\"} }; " } else { "" };
    if d.k == 0 {
        body.push_str("    [] | each {|i| $i}\n");
    } else {
        body.push_str(&format!("    1..{} | each {{|i| {}{}{{i: $i, arg: $arg, before: $before, tag: \"{}\"}} }}\n", d.k, sleep, lazy_fail, d.tag));
    }
    let mut ro = String::new();
    if d.suffix.is_some() || d.ttl.is_some() {
        ro.push_str("  return_options: {");
        if let Some(s) = d.suffix {
            ro.push_str(&format!("suffix: \"{}\" ", s));
        }
        if let Some(t) = d.ttl {
            ro.push_str(&format!("ttl: \"{}\"", t));
        }
        ro.push_str("}\n");
    }
    if d.with_module {
        ro.push_str("  modules: {cmod: \"export def same [x] { $x }\"}\n");
    }
    format!("{{\n{}  run: {{|frame|\n{}  }}\n}}", ro, body)
}

pub const BAD_DEFS: &[&str] = &[
    "{run: {|frame| ",
    "{norun: 1}",
    "not nu at all (((",
    "{run: 5}",
    // a configuration that does not parse makes the definition invalid as a whole
    "{return_options: {ttl: \"head:0\"}, run: {|frame| [1] | each {|x| $x}}}",
    "{return_options: {ttl: \"time:soon\"}, run: {|frame| [1] | each {|x| $x}}}",
    "{return_options: {ttl: 5}, run: {|frame| [1] | each {|x| $x}}}",
];

pub struct Call {
    pub frame: Frame,
    pub name: String,
    pub arg: String,
    pub boom: bool,
    /// the definition in force when the call was appended (None = not defined then)
    pub def: Option<(Scru128Id, CmdDef)>,
}

pub fn run_case(seed: u64) -> CaseResult {
    let mut res = CaseResult::default();
    let mut srv = match Srv::start("c19") {
        Ok(s) => s,
        Err(e) => {
            res.inconclusive = Some(format!("start: {}", e));
            return res;
        }
    };
    let r = case(&mut srv, seed, &mut res);
    if let Err(e) = r {
        let stderr = srv.stderr();
        absorb(&mut res, &["C19"], e, stderr);
    }
    if !srv.panics.is_empty() {
        res.find(&["C19"], "panic-in-server", json!({"panics": srv.panics}));
    }
    srv.finish();
    res
}

/// The commands loop handles frames in stream order and awaits each `.define` inline: once a call to the
/// always-defined `sync` command (appended after a definition) has completed, that definition is in force.
/// Returns false if the watchdog expired.
pub fn sync_commands(srv: &mut Srv) -> R<bool> {
    let c = srv.must_append("sync.call", ZERO_CONTEXT, None, None, None)?;
    let cid = c.id.to_string();
    srv.wait(Duration::from_secs(30), |log| log.iter().any(|f| f.topic == "sync.complete" && meta_str(f, "frame_id") == Some(&cid)))
}

pub const SYNC_DEF: &str = "{run: {|frame| [] | each {|x| $x}}}";

fn case(srv: &mut Srv, seed: u64, res: &mut CaseResult) -> R<()> {
    let mut rng = Rng::new(seed);
    let ctx_a = srv.new_context()?;
    srv.must_append("sync.define", ZERO_CONTEXT, Some(SYNC_DEF.as_bytes()), None, None)?;
    if !sync_commands(srv)? {
        res.inconclusive = Some("commands loop did not answer the first sync call within 30 s".into());
        return Ok(());
    }
    let ctxs = [ZERO_CONTEXT, ctx_a];
    // (one name is another name followed by ".call": a call to the longer one is `job.call.call`)
    let names = ["c1", "job", "job.call"];
    let mut current: BTreeMap<String, (Scru128Id, CmdDef)> = BTreeMap::new();
    let mut calls: Vec<Call> = vec![];
    let mut bad_defs: Vec<Frame> = vec![];
    let mut events = vec![];
    let n_events = 8 + rng.below(8);
    let restart_at = if rng.chance(350) { Some(3 + rng.below(n_events - 3)) } else { None };
    let mut restarts = 0u64;
    let mut bad_def_era: Vec<u64> = vec![];
    for ev in 0..n_events {
        if restart_at == Some(ev) {
            // restart of the whole server: definitions persist (the latest valid one per name), calls already
            // answered are never executed again
            if !wait_terminals(srv, &calls)? {
                res.inconclusive = Some("calls before the restart did not finish within the watchdog".into());
                return Ok(());
            }
            srv.settle(Duration::from_millis(200), Duration::from_secs(5))?;
            let watermark = srv.log.iter().map(|f| f.id).max().unwrap_or(ZERO_CONTEXT);
            let kill = rng.chance(600);
            srv.restart(kill)?;
            restarts += 1;
            res.count(if kill { "restarts.sigkill" } else { "restarts.clean" }, 1);
            events.push(format!("restart:{}", if kill { "kill" } else { "clean" }));
            if !sync_commands(srv)? {
                res.inconclusive = Some("commands loop did not answer a sync call within 30 s after the restart".into());
                return Ok(());
            }
            srv.settle(Duration::from_millis(300), Duration::from_secs(5))?;
            let old_calls: BTreeSet<String> = calls.iter().map(|c| c.frame.id.to_string()).collect();
            for f in srv.era_log().iter().filter(|f| f.id > watermark && !is_synth(f)) {
                if let Some(fid) = meta_str(f, "frame_id") {
                    if old_calls.contains(fid) {
                        res.find(&["C19", "C17"], "call-re-executed-after-restart", json!({"new_frame": f, "events": events}));
                    }
                }
            }
        }
        let name = names[rng.below(3)];
        let ctx = ctxs[rng.below(2)];
        let kind = if !current.contains_key(name) { *rng.pick(&["define", "define", "call", "define-bad"]) } else { *rng.pick(&["call", "call", "call-burst", "define", "define-bad", "call", "redefine-identical"]) };
        events.push(format!("{}:{}", kind, name));
        match kind {
            "define" => {
                let d = gen_def(&mut rng, &format!("d{}", ev));
                let f = srv.must_append(&format!("{}.define", name), ctx, Some(def_script(&d).as_bytes()), None, None)?;
                // a definition takes effect when the serve loop has processed it
                if !sync_commands(srv)? {
                    res.inconclusive = Some("commands loop did not reach a sync call within 30 s".into());
                    return Ok(());
                }
                if let Some(e) = srv.era_log().iter().find(|x| x.topic == format!("{}.error", name) && meta_str(x, "command_id") == Some(&f.id.to_string())) {
                    res.inconclusive = Some(format!("generated definition rejected: {:?}\n{}", e.meta, def_script(&d)));
                    return Ok(());
                }
                res.seen("definition_shapes", format!("k={}/sleep={}/append={}/module={}/fail={}/suffix={:?}/ttl={:?}", d.k, d.sleep_ms, d.with_append, d.with_module, d.fail, d.suffix, d.ttl));
                current.insert(name.to_string(), (f.id, d));
            }
            "redefine-identical" => {
                // the same script bytes again: a new definition frame, whose id later results must carry
                let (_, d) = current.get(name).cloned().unwrap();
                let f = srv.must_append(&format!("{}.define", name), ctx, Some(def_script(&d).as_bytes()), None, None)?;
                if !sync_commands(srv)? {
                    res.inconclusive = Some("commands loop did not reach a sync call within 30 s".into());
                    return Ok(());
                }
                current.insert(name.to_string(), (f.id, d));
                res.count("identical_redefinitions", 1);
            }
            "define-bad" => {
                let f = srv.must_append(&format!("{}.define", name), ctx, Some(rng.pick(BAD_DEFS).as_bytes()), None, None)?;
                if !sync_commands(srv)? {
                    res.inconclusive = Some("commands loop did not reach a sync call within 30 s".into());
                    return Ok(());
                }
                bad_defs.push(f);
                bad_def_era.push(restarts);
            }
            "call-burst" => {
                // overlapping calls: several at once, each with its own argument
                let n = 4 + rng.below(5);
                for i in 0..n {
                    let arg = format!("b{}-{}", ev, i);
                    let boom = rng.chance(200);
                    let f = srv.must_append(&format!("{}.call", name), ctx, None, Some(json!({"arg": arg, "boom": boom})), None)?;
                    calls.push(Call { frame: f, name: name.to_string(), arg, boom, def: current.get(name).cloned() });
                }
                res.count("overlapping_call_bursts", 1);
            }
            _ => {
                let arg = format!("a{}", ev);
                let boom = rng.chance(250);
                let f = srv.must_append(&format!("{}.call", name), ctx, None, Some(json!({"arg": arg, "boom": boom})), None)?;
                calls.push(Call { frame: f, name: name.to_string(), arg, boom, def: current.get(name).cloned() });
                if rng.chance(500) {
                    srv.settle(Duration::from_millis(30), Duration::from_secs(5))?;
                }
            }
        }
    }
    // quiescence: every defined call has its terminal event (bounded), then a quiet period
    let done = wait_terminals(srv, &calls)?;
    srv.settle(Duration::from_millis(250), Duration::from_secs(5))?;
    let later_starts: Vec<u64> = bad_def_era.iter().map(|e| restarts - e).collect();
    check_calls(srv, res, &calls, &bad_defs, &later_starts, done, "");
    res.hash = fnv(&events.join(","));
    if res.sample.is_none() {
        res.sample = Some(json!({"events": events, "calls": calls.len(), "a_definition": current.values().next().map(|d| def_script(&d.1))}));
    }
    Ok(())
}

/// Bounded wait for a terminal event per call made while its command was defined. If some are missing after
/// 40 s, the loop's liveness is probed: a later `sync` call that completes, followed by 2 s without any new
/// frame, means the missing ones are not merely slow (the scripts sleep for milliseconds) — the verdict may
/// then be drawn; otherwise the case stays inconclusive.
fn wait_terminals(srv: &mut Srv, calls: &[Call]) -> R<bool> {
    let want: Vec<(String, String)> = calls.iter().filter(|c| c.def.is_some()).map(|c| (c.name.clone(), c.frame.id.to_string())).collect();
    let all = |log: &[Frame]| want.iter().all(|(n, id)| log.iter().any(|f| (f.topic == format!("{}.complete", n) || f.topic == format!("{}.error", n)) && meta_str(f, "frame_id") == Some(id)));
    let t0 = std::time::Instant::now();
    loop {
        srv.pull()?;
        if all(&srv.log) {
            return Ok(true);
        }
        if t0.elapsed() > Duration::from_secs(40) {
            break;
        }
        std::thread::sleep(Duration::from_millis(5));
    }
    if !sync_commands(srv)? {
        return Ok(false);
    }
    srv.settle(Duration::from_secs(2), Duration::from_secs(20))?;
    let n0 = srv.log.len();
    std::thread::sleep(Duration::from_secs(2));
    srv.pull()?;
    Ok(srv.log.len() == n0)
}

pub fn check_calls(srv: &mut Srv, res: &mut CaseResult, calls: &[Call], bad_defs: &[Frame], later_starts: &[u64], done: bool, sig_prefix: &str) {
    // after a restart the monitor's follower re-reads the history: one entry per frame id
    let log: Vec<Frame> = srv.log.iter().filter(|f| !is_synth(f)).map(|f| (f.id, f.clone())).collect::<BTreeMap<_, _>>().into_values().collect();
    let mut checked = 0u64;
    for c in calls {
        let cid = c.frame.id.to_string();
        let d = json!({"call": c.frame, "name": c.name, "defined": c.def.is_some()});
        let mine: Vec<&Frame> = log.iter().filter(|f| meta_str(f, "frame_id") == Some(&cid) && f.topic.starts_with(&format!("{}.", c.name)) && f.id != c.frame.id).collect();
        let side: Vec<&Frame> = log.iter().filter(|f| f.topic == "side.note" && meta_str(f, "frame_id") == Some(&cid)).collect();
        let Some((def_id, def)) = &c.def else {
            if !mine.is_empty() {
                res.find(&["C19"], format!("{}call-to-an-undefined-command-was-answered", sig_prefix), json!({"case": d, "frames": mine.iter().take(3).collect::<Vec<_>>()}));
            }
            continue;
        };
        checked += 1;
        let recv_topic = format!("{}{}", c.name, def.suffix.unwrap_or(".recv"));
        let terminals: Vec<&&Frame> = mine.iter().filter(|f| f.topic == format!("{}.complete", c.name) || f.topic == format!("{}.error", c.name)).collect();
        if terminals.is_empty() {
            if done {
                res.find(&["C19"], format!("{}call-without-terminal-event", sig_prefix), json!({"case": d}));
            } else {
                res.inconclusive = Some(format!("a call had no terminal event within the watchdog: {}", d));
            }
            continue;
        }
        if terminals.len() > 1 {
            let twice = mine.iter().filter(|f| f.topic == format!("{}.complete", c.name)).count() > 1;
            res.find(&["C19"], format!("{}{}", sig_prefix, if twice { "call-executed-twice" } else { "more-than-one-terminal-event" }), json!({"case": d, "terminals": terminals}));
            continue;
        }
        let term = terminals[0];
        // nothing after the terminal event
        if let Some(f) = mine.iter().find(|f| f.id > term.id) {
            res.find(&["C19"], format!("{}output-after-the-terminal-event", sig_prefix), json!({"case": d, "frame": f}));
        }
        // stamps: definition id in force, call id, caller's context
        for f in mine.iter().chain(side.iter()) {
            if f.context_id != c.frame.context_id {
                res.find(&["C19", "C06"], format!("{}output-outside-the-callers-context", sig_prefix), json!({"case": d, "frame": f}));
            }
            if meta_str(f, "command_id") != Some(&def_id.to_string()) {
                res.find(&["C19"], format!("{}stamped-with-the-wrong-definition", sig_prefix), json!({"case": d, "frame": f, "definition_in_force": def_id.to_string()}));
            }
        }
        let recvs: Vec<&&Frame> = mine.iter().filter(|f| f.topic == recv_topic).collect();
        let is_error = term.topic.ends_with(".error");
        let expect_eager_error = c.boom && def.fail == "eager";
        let expect_lazy_error = c.boom && def.fail == "lazy" && def.k >= 2;
        if expect_eager_error {
            if !is_error || !recvs.is_empty() {
                res.find(&["C19"], format!("{}eager-failure-not-reported-as-single-error", sig_prefix), json!({"case": d, "terminal": term, "recvs": recvs.len()}));
            }
            continue;
        }
        if expect_lazy_error {
            // only "exactly one terminal event, nothing after it" is required (checked above)
            continue;
        }
        if is_error {
            res.find(&["C19"], format!("{}successful-call-ended-in-error", sig_prefix), json!({"case": d, "terminal": term}));
            continue;
        }
        if recvs.len() != def.k {
            res.find(&["C19"], format!("{}wrong-number-of-results", sig_prefix), json!({"case": d, "got": recvs.len(), "expected": def.k}));
            continue;
        }
        let want_ttl: Option<TTL> = def.ttl.and_then(|t| serde_json::from_value(json!(t)).ok());
        for (i, r) in recvs.iter().enumerate() {
            if r.ttl != want_ttl {
                res.find(&["C19"], format!("{}result-ttl-differs", sig_prefix), json!({"case": d, "frame": r, "expected": def.ttl}));
            }
            let content = srv.content_str(r).ok().flatten();
            let v: Value = content.as_deref().and_then(|s| serde_json::from_str(s).ok()).unwrap_or(Value::Null);
            if v["i"].as_i64() != Some(i as i64 + 1) {
                res.find(&["C19"], format!("{}results-out-of-order-or-missing-content", sig_prefix), json!({"case": d, "position": i, "content": v}));
                break;
            }
            if v["arg"].as_str() != Some(c.arg.as_str()) {
                res.find(&["C19"], format!("{}result-carries-another-calls-argument", sig_prefix), json!({"case": d, "content": v}));
                break;
            }
            if v["before"].as_str() != Some("unset") {
                res.find(&["C19"], format!("{}state-leaked-between-calls", sig_prefix), json!({"case": d, "content": v}));
                break;
            }
            if v["tag"].as_str() != Some(def.tag.as_str()) {
                res.find(&["C19"], format!("{}answered-by-an-older-definition", sig_prefix), json!({"case": d, "content": v, "expected_tag": def.tag}));
                break;
            }
        }
        if def.with_append {
            if side.len() != 1 {
                res.find(&["C19"], format!("{}explicit-append-count-wrong", sig_prefix), json!({"case": d, "got": side.len()}));
            } else if side[0].meta.as_ref().and_then(|m| m.get("arg")).and_then(|a| a.as_str()) != Some(c.arg.as_str()) {
                res.find(&["C19"], format!("{}explicit-append-meta-differs", sig_prefix), json!({"case": d, "frame": side[0]}));
            }
        }
    }
    for (bi, b) in bad_defs.iter().enumerate() {
        let name = b.topic.strip_suffix(".define").unwrap_or("");
        let errs = log.iter().filter(|f| f.topic == format!("{}.error", name) && meta_str(f, "command_id") == Some(&b.id.to_string())).count() as u64;
        // reported once when it arrives; a later start of the server replays the definitions and may report it again
        let extra = later_starts.get(bi).copied().unwrap_or(0);
        if errs < 1 || errs > 1 + extra {
            res.find(&["C19"], format!("{}invalid-definition-not-reported-exactly-once", sig_prefix), json!({"definition": b, "error_frames": errs}));
        }
    }
    res.count("calls_checked", checked);
    res.nontrivial = checked >= 3;
}
