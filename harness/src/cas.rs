//! Independent SHA-256 (sha2 crate), not ssri/cacache.
use base64::Engine as _;
use sha2::{Digest, Sha256};

pub fn sha256_integrity(bytes: &[u8]) -> String {
    let d = Sha256::digest(bytes);
    format!("sha256-{}", base64::engine::general_purpose::STANDARD.encode(d))
}
