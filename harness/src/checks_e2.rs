//! Checks decided by E2: C02, C03, C11 (worker processes run the rounds; this aggregates).
use std::io::{BufRead, BufReader};
use std::process::{Command, Stdio};

use serde_json::{json, Value};

use crate::par::{run_cases, workers};
use crate::report::{fnv, Report};

fn rule(prop: &str) -> &'static str {
    match prop {
        "C02" => "rounds on a fresh store: 2-8 writer threads x 25-125 appends with unique (writer,seq) metas, three last-id pollers (read_sync and read, all / ctx / zero scope, with and without limit), two snapshot readers, three followers; seeded jitter at append sync points or directed parking (hold one writer between id assignment / commit / broadcast until another passes); oracles at the client boundary: follower ids increase, snapshot monotonicity (A.6), pollers see every acknowledged id exactly once; non-trivial = round with >=2 appends overlapping in time and >=1 ordered snapshot pair; distinct by hash of the hook-event order (interleaving class)",
        "C03" => "rounds: history of {0,1,7,99,100,101,250} frames (one removed, some ephemeral), start in {beginning, live last-id, removed last-id, tail}, scope in {all, ctx}, 1-4 appenders writing persistent and ephemeral frames in and out of scope before/while/after read() is called, seeded jitter or directed parking at read/append sync points; oracle A.7 (exactly once, increasing, P u Q subset R subset P u U u Q, one threshold after P and before any ephemeral); non-trivial = round with appends overlapping the read() call or both history and live frames; distinct by interleaving class",
        "C11" => "option sweep: limit n in {1,2,5,100,101} x history matches in {0,n-1,n,n+1,150} x follow in {off,on,5ms heartbeat} x tail x last-id x scope, live frames appended after read() returns; plus slow-consumer rounds (stall while >1024+100 frames are appended, during replay or afterwards); oracle A.8 (exactly the first n, nothing after the n-th item, stream closes, threshold/pulse only when asked, never an item past an undelivered frame); distinct by option shape x split; every round non-trivial except slow rounds that did not lag",
        _ => "",
    }
}

pub fn run_worker(mode: &str, seed: u64, first: u64, count: u64) -> Vec<Value> {
    run_worker_with(&crate::session::self_exe(), &[], mode, seed, first, count)
}

fn run_worker_with(exe: &std::path::Path, envs: &[(String, String)], mode: &str, seed: u64, first: u64, count: u64) -> Vec<Value> {
    let mut cmd = Command::new(exe);
    for (k, v) in envs {
        cmd.env(k, v);
    }
    cmd.arg("e2").arg(mode).arg(seed.to_string()).arg(first.to_string()).arg(count.to_string());
    cmd.stdout(Stdio::piped()).stderr(Stdio::piped());
    let mut child = match cmd.spawn() {
        Ok(c) => c,
        Err(e) => return vec![json!({"worker_error": e.to_string()})],
    };
    let stdout = child.stdout.take().unwrap();
    let stderr = child.stderr.take().unwrap();
    let errt = std::thread::spawn(move || {
        let mut tail: Vec<String> = vec![];
        for l in BufReader::new(stderr).lines().map_while(Result::ok) {
            tail.push(l);
            if tail.len() > 30 {
                tail.remove(0);
            }
        }
        tail
    });
    // watchdog: a worker that stops making progress is killed; its missing rounds are inconclusive
    let pid = child.id();
    let done = std::sync::Arc::new(std::sync::atomic::AtomicBool::new(false));
    {
        let done = done.clone();
        let limit = 60 + 20 * count;
        std::thread::spawn(move || {
            for _ in 0..limit {
                std::thread::sleep(std::time::Duration::from_secs(1));
                if done.load(std::sync::atomic::Ordering::SeqCst) {
                    return;
                }
            }
            let _ = Command::new("kill").arg("-9").arg(pid.to_string()).status();
        });
    }
    let mut out = vec![];
    for l in BufReader::new(stdout).lines().map_while(Result::ok) {
        if let Ok(v) = serde_json::from_str::<Value>(&l) {
            out.push(v);
        }
    }
    done.store(true, std::sync::atomic::Ordering::SeqCst);
    let status = child.wait();
    let tail = errt.join().unwrap_or_default();
    if out.len() < count as usize {
        out.push(json!({"worker_error": format!("worker ended after {} of {} rounds: {:?}; stderr: {}", out.len(), count, status, tail.join(" | "))}));
    }
    out
}

pub fn run(prop: &'static str, tier: &str, seed: u64) -> i32 {
    let t = tier == "thorough";
    let (mode, total, per_worker, par) = match prop {
        "C02" => ("c02", if t { 1440 } else { 64 }, 8u64, 6usize),
        "C03" => ("c03", if t { 6400 } else { 160 }, 20, 6),
        _ => ("c11", if t { 9600 } else { 240 }, 30, 8),
    };
    let mut rep = Report::new(prop, tier, seed, "exploration", rule(prop));
    rep.assumptions = vec![
        "sync-point hooks only sleep or park a thread (with a 20 ms logical timeout); they cannot create interleavings the scheduler could not".into(),
        "timestamps are taken before each call and after each return from one monotonic clock".into(),
        "wall-clock watchdogs (10-30 s) only produce 'inconclusive', never a violation".into(),
    ];
    let batches = (total as u64 + per_worker - 1) / per_worker;
    let mode_s = mode.to_string();
    let results = run_cases(batches as usize, par.min(workers()), move |b| run_worker(&mode_s, seed, b as u64 * per_worker, per_worker));
    let mut classes = std::collections::BTreeSet::new();
    let mut results = results;
    if prop == "C03" {
        // a follower that stalls past the broadcast and delivery buffers: while its stream stays open it must not skip frames
        let n_slow = if t { 160u64 } else { 8 };
        let slow: Vec<Vec<Value>> = run_cases(((n_slow + 3) / 4) as usize, 4, move |b| run_worker("c11slow", seed ^ 0x510, b as u64 * 4, 4));
        results.extend(slow);
    }
    if prop == "C11" {
        // limit and heartbeat through the HTTP front end (pulses flow before the n-th frame exists)
        let n_http = if t { 160 } else { 16 };
        let http: Vec<Value> = run_cases(n_http, 8, move |i| crate::e2h::http_limit_round(crate::rng::mix(seed, 99_000 + i as u64)));
        results.push(http);
    }
    if prop == "C03" {
        // the same property through the HTTP front end: a follower whose replay is held up while others append
        let n_http = if t { 120 } else { 6 };
        let http: Vec<Value> = run_cases(n_http, 6, move |i| crate::e2h::http_follow_round(crate::rng::mix(seed, 88_000 + i as u64)));
        results.push(http);
        // ... and through the command-line client with a slow consumer on its stdout
        let n_cli = if t { 24 } else { 3 };
        let cli: Vec<Value> = run_cases(n_cli, 3, move |i| crate::e2h::cli_follow_round(crate::rng::mix(seed, 89_000 + i as u64)));
        results.push(cli);
    }
    if prop == "C02" {
        // the same property through the HTTP front end (parallel connections, NDJSON and SSE pollers)
        let n_http = if t { 120 } else { 6 };
        let http: Vec<Value> = run_cases(n_http, 4, move |i| crate::e2h::http_round(crate::rng::mix(seed, 77_000 + i as u64)));
        results.push(http);
    }
    if t && std::env::var("XSMON_TSAN").map(|v| v != "0").unwrap_or(true) {
        // ThreadSanitizer leg: the same rounds and oracles under an instrumented build (see tsan.rs)
        match crate::tsan::build() {
            Ok(exe) => {
                let logdir = crate::session::work_dir("tsan");
                let _ = std::fs::create_dir_all(&logdir);
                let envs = vec![("TSAN_OPTIONS".to_string(), format!("halt_on_error=0 exitcode=0 report_signal_unsafe=0 log_path={}/tsan", logdir.display()))];
                let n_workers = 8u64;
                let per = match prop {
                    "C02" => 6u64,
                    "C03" => 12,
                    _ => 16,
                };
                let mode_s = mode.to_string();
                let tsan_rounds: Vec<Vec<Value>> = run_cases(n_workers as usize, 8, move |b| run_worker_with(&exe, &envs, &mode_s, seed ^ 0x75a0, 1_000_000 + b as u64 * per, per));
                let n: usize = tsan_rounds.iter().map(|b| b.iter().filter(|r| r.get("worker_error").is_none()).count()).sum();
                rep.count("tsan_rounds", n as u64);
                results.extend(tsan_rounds);
                let sum = crate::tsan::summarise(&logdir);
                rep.extra.insert(
                    "thread_sanitizer".into(),
                    json!({
                        "rounds": n,
                        "reports": sum.total,
                        "reports_by_kind_and_owner_of_the_two_accesses": sum.by_site,
                        "reports_with_a_racing_access_in_xs_source": sum.in_xs,
                        "reading": "observation only: no property here is a data-race property; reports whose accesses are both in crossbeam-epoch are TSan's known blind spot for fence-based epoch reclamation",
                    }),
                );
                for x in &sum.in_xs {
                    println!("OBSERVATION property={} thread-sanitizer report with a racing access in xs: {}", prop, x);
                }
                crate::session::rm_dir(&logdir);
            }
            Err(e) => {
                rep.extra.insert("thread_sanitizer".into(), json!({"skipped": e}));
            }
        }
    }
    for batch in results {
        for r in batch {
            if let Some(e) = r.get("worker_error") {
                rep.inconclusive(format!("{}", e));
                rep.eval();
                continue;
            }
            rep.eval();
            if r["panics"].as_u64().unwrap_or(0) > 0 || r["harness_panic"] == true {
                rep.violation(format!("{}/panic-during-round", prop), json!({"engine": "E2", "round": r}));
            }
            if !r["inconclusive"].is_null() {
                rep.inconclusive(format!("seed {}: {}", r["seed"], r["inconclusive"]));
            }
            rep.count("frames", r["frames"].as_u64().unwrap_or(0));
            for k in ["polls", "snapshot_pairs", "live_frames", "overlapping_appends", "window_entered", "window_blocked", "window_hits", "delivered_from_window", "removed_during_scan"] {
                if let Some(n) = r[k].as_u64() {
                    rep.count(k, n);
                }
            }
            if let Some(m) = r["max_concurrent_appenders"].as_i64() {
                let cur = rep.extra.get("max_concurrent_appenders_inside_append").and_then(|v| v.as_i64()).unwrap_or(0);
                rep.extra.insert("max_concurrent_appenders_inside_append".into(), json!(cur.max(m)));
            }
            if let Some(h) = r["hits"].as_object() {
                for (k, v) in h {
                    rep.count(&format!("hook_hits.{}", k), v.as_u64().unwrap_or(0));
                }
            }
            let class = r["class"].as_str().unwrap_or("").to_string();
            classes.insert(class.clone());
            if let Some(s) = r["shape"].as_str() {
                rep.seen("shapes", s);
            }
            if r["http_round"] == true {
                rep.count("http_rounds", 1);
            }
            if r["http_limit_round"] == true {
                rep.count("http_limit_rounds", 1);
                if r["via_client"] == true {
                    rep.count("http_limit.rounds_through_the_client_library", 1);
                }
                rep.count("http_limit.pulses_delivered_before_the_nth_frame", r["pulses_before_the_nth_frame"].as_u64().unwrap_or(0));
            }
            if r["cli_follow_round"] == true {
                rep.count("cli_follow_rounds", 1);
            }
            if r["http_follow_round"] == true {
                rep.count("http_follow_rounds", 1);
                rep.count("http_follow.appended_during_replay_and_delivered_after_threshold", r["delivered_from_window"].as_u64().unwrap_or(0));
            }
            if r["lagged"] == true {
                rep.count("slow_rounds_that_lagged", 1);
            }
            if r["nontrivial"] == true && r["inconclusive"].is_null() {
                let key = match prop {
                    "C11" => format!("{}|{}", r["shape"], r["split"]),
                    _ => class,
                };
                rep.nontrivial(fnv(&key));
            }
            if rep.samples.len() < 3 {
                let mut s = r.clone();
                if let Some(o) = s.as_object_mut() {
                    o.remove("hits");
                }
                rep.sample(s);
            }
            for v in r["violations"].as_array().cloned().unwrap_or_default() {
                let props: Vec<String> = v["props"].as_array().cloned().unwrap_or_default().iter().filter_map(|p| p.as_str().map(|s| s.to_string())).collect();
                if props.iter().any(|p| p == prop) {
                    rep.violation(
                        format!("{}/{}", prop, v["signature"].as_str().unwrap_or("?")),
                        json!({"engine": "E2", "mode": r["mode"], "round_seed": r["seed"], "config": r["config"], "finding": v["detail"], "refutes": props}),
                    );
                }
            }
        }
    }
    rep.extra.insert("interleaving_classes".into(), json!(classes.len()));
    rep.require("frames observed", rep.counters.get("frames").copied().unwrap_or(0) > 0);
    if prop == "C02" {
        rep.require("appends overlapped in time", rep.counters.get("overlapping_appends").copied().unwrap_or(0) > 0);
        rep.require("ordered snapshot pairs compared", rep.counters.get("snapshot_pairs").copied().unwrap_or(0) > 0);
        rep.require("http rounds", rep.counters.get("http_rounds").copied().unwrap_or(0) > 0);
    }
    if prop == "C03" {
        rep.require("a stalled follower lagged past the buffers", rep.counters.get("slow_rounds_that_lagged").copied().unwrap_or(0) > 0);
        rep.require("appends overlapped the read() call", rep.counters.get("window_hits").copied().unwrap_or(0) > 0);
        rep.require("http follow rounds", rep.counters.get("http_follow_rounds").copied().unwrap_or(0) > 0);
    }
    if prop == "C11" {
        rep.require("http limit rounds with pulses", rep.counters.get("http_limit.pulses_delivered_before_the_nth_frame").copied().unwrap_or(0) > 0);
        rep.require("a slow consumer actually lagged", rep.counters.get("slow_rounds_that_lagged").copied().unwrap_or(0) > 0);
    }
    rep.finish()
}
