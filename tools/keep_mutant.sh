#!/bin/bash
# keep_mutant.sh <wt-name> <seeded-id> <property> "<what it needs to manifest>"
n="$1"; id="$2"; prop="$3"; needs="$4"; d=/tmp/wt/$n; o=/verif/seeded/$id
mkdir -p "$o"
git -C "$d" diff -- src Cargo.toml > "$o/patch.diff"
cp "$d"/tests/mutant_demo*.rs "$o/" 2>/dev/null
cp "$d/MUTANT/README.md" "$o/AGENT_README.md" 2>/dev/null
python3 - "$o" "$prop" "$needs" "$n" <<'PY'
import json,sys,subprocess
o,prop,needs,n=sys.argv[1:5]
base=subprocess.run(["git","-C","/repo","rev-parse","--short","HEAD"],capture_output=True,text=True).stdout.strip()
json.dump({"breaks_property":prop,"needs_to_manifest":needs,"applies_to_repo_commit":base,
 "confirmed":{"how":"tools/confirm_mutant.sh in the sub-agent's scratch worktree with a private target dir",
   "existing_suite_with_change":"65 unit + 1 integration passed","demo_with_change":"FAILED","demo_without_change":"ok"},
 "detected_by":[]}, open(o+"/meta.json","w"), indent=1)
PY
ls "$o"
