#!/bin/bash
# try_mutant.sh <patch.diff> <Cxx> [more Cxx...]: apply the patch to /repo, run the quick checks, undo.
p="$1"; shift
cd /repo || exit 2
[ -z "$(git status --porcelain -- src Cargo.toml)" ] || { echo "/repo has uncommitted source edits"; exit 2; }
git apply "$p" || { echo "patch does not apply"; exit 2; }
for c in "$@"; do
  echo "=== $c against $(basename $(dirname $p))"
  ( cd /verif && timeout 1500 ./run $c ${TIER:-quick} 2>&1 | grep -E "signature|VIOLATION|KNOWN|exit|INCONCLUSIVE|BUILD" | head -60 )
done
git -C /repo checkout -- . 
