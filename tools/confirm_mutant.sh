#!/bin/bash
# confirm_mutant.sh <wt-name>: re-verify a sub-agent's change in its scratch worktree with a private target dir:
#   existing suite passes with the change, demo fails with it, demo passes without it.
n="$1"; d=/tmp/wt/$n
export CARGO_NET_OFFLINE=true; unset CARGO_TARGET_DIR
cd "$d" || exit 2
git diff -- src Cargo.toml > /tmp/confirm-$n.diff
[ -s /tmp/confirm-$n.diff ] || { echo "no source change in $d"; exit 2; }
demos=$(ls tests/ | grep -v '^integration.rs$' | sed 's/\.rs$//' | tr '\n' ' ')
echo "== demos: $demos"
find src tests -name "*.rs" -exec touch {} +
echo "== (1) existing suite WITH change"
cargo test --offline --lib --test integration </dev/null 2>&1 | grep -E "^test result|FAILED|error(\[|:)" | head
echo "== (2) demo WITH change (expect FAIL)"
for t in $demos; do cargo test --offline --test $t </dev/null 2>&1 | grep -E "^test result|error(\[|:)" | head -3; done
echo "== (3) demo WITHOUT change (expect ok)"
git checkout -q -- src Cargo.toml   # (not git stash: the stash is shared by all worktrees)
find src tests -name "*.rs" -exec touch {} +
for t in $demos; do cargo test --offline --test $t </dev/null 2>&1 | grep -E "^test result|error(\[|:)" | head -3; done
git apply /tmp/confirm-$n.diff
find src tests -name "*.rs" -exec touch {} +
git diff --stat -- src Cargo.toml | tail -1
