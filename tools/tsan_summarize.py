#!/usr/bin/env python3
"""Summarise ThreadSanitizer logs: one line per report = kind + for each stack the first frame outside
std/core/alloc/tsan and the first frame inside /repo/src (if any). Deduplicates. Usage: tsan_summarize.py <log>..."""
import re, sys, json, collections
SKIP = ('/rustlib/src/rust/library/', 'compiler-rt', 'tsan_')
def frames(block):
    out = []
    for l in block:
        m = re.match(r'\s+#\d+ (.*?) (/\S+?):(\d+)(?::\d+)? \(', l)
        if m:
            out.append((m.group(1), m.group(2), m.group(3)))
    return out
def short(fn):
    fn = re.sub(r'<([^<>]|<[^<>]*>)*>', '<>', fn)
    return fn[:90]
def crate(path):
    m = re.search(r'/registry/src/[^/]+/([^/]+)/', path)
    if m: return m.group(1)
    if path.startswith('/repo/'): return 'xs:' + path[len('/repo/'):]
    if '/verif/harness' in path or path.startswith('src/'): return 'xsmon'
    return path.rsplit('/', 1)[-1]
def main():
    reports = collections.Counter()
    detail = {}
    for p in sys.argv[1:]:
        txt = open(p, errors='replace').read().split('==================')
        for rep in txt:
            if 'WARNING: ThreadSanitizer' not in rep: continue
            lines = rep.splitlines()
            kind = re.search(r'WARNING: ThreadSanitizer: ([^(]+)', rep).group(1).strip()
            stacks, cur = [], None
            for l in lines:
                if re.match(r'\s+(Write|Read|Previous|Atomic|Mutex|Location|Thread T\d+.*created)', l) or re.match(r'\s+\S.*(by thread|by main thread)', l):
                    cur = [l.strip()]; stacks.append(cur)
                elif cur is not None:
                    cur.append(l)
            sig = [kind]
            for st in stacks[:2]:
                fs = frames(st[1:])
                first_ext = next((f for f in fs if not any(s in f[1] for s in SKIP)), None)
                first_repo = next((f for f in fs if f[1].startswith('/repo/src')), None)
                sig.append((st[0].split(' at ')[0], crate(first_ext[1]) + ':' + first_ext[2] if first_ext else '?', (first_repo[1][6:] + ':' + first_repo[2]) if first_repo else None))
            key = json.dumps(sig)
            reports[key] += 1
    for k, n in reports.most_common():
        print(n, k)
    print('distinct', len(reports), 'total', sum(reports.values()))
main()
