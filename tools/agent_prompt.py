#!/usr/bin/env python3
"""agent_prompt.py <Cxx> <worktree>: prints the prompt for a mutation sub-agent (property text only)."""
import json, sys
pid, wt = sys.argv[1], sys.argv[2]
extra = sys.argv[3] if len(sys.argv) > 3 else ""
p = next(json.loads(l) for l in open('/verif/properties.jsonl') if json.loads(l)['id'] == pid)
print(f"""You are helping test a verification effort by playing the adversary. You work ONLY inside the git worktree {wt} (a checkout of the Rust project cablehead/xs, an event stream store; `cargo` works offline; a build cache is already in {wt}/target). Do not read or touch /verif or /repo, and do not look for any verification machinery; nothing there is for you.

The project should satisfy this semantic property:

  Title: {p['title']}
  Statement: {p['statement']}
  Quantified over: {p['quantifier']['text']}

Your task: make ONE small, realistic source change to the project (the kind of regression a maintainer could plausibly introduce: a wrong bound, a dropped filter, a reordered step, a missing lock/flush, a wrong key, an off-by-one, a cache not invalidated, ...) that BREAKS this property while
  (1) the project still compiles, and
  (2) the existing test suite still passes unchanged: run `cd {wt} && cargo test --workspace --offline </dev/null 2>&1 | tail -30` (always redirect stdin from /dev/null; the suite takes about a minute; one test named test_follow may be flaky and can be ignored), and
  (3) the breakage needs something specific to manifest — a particular interleaving, a crash or fault at a particular point, a multi-step sequence of operations, an unusual input, or two cooperating sites that each look fine alone — rather than something ordinary use or the existing tests would expose at once. {extra}

Do not edit existing tests. Do not add `#[cfg(test)]`-only changes: the change must be in the shipped code paths under src/. Do not rely on or modify code guarded by `#[cfg(feature = "verif")]` (leave those lines alone; they are inert instrumentation).

Also write a demonstration that FAILS with your change and PASSES without it: preferably a new Rust test file under {wt}/tests/ (e.g. tests/mutant_demo.rs, using the public API of the `xs` library crate: xs::store::{{Store, Frame, ReadOptions, FollowOption, TTL, ZERO_CONTEXT}}, xs::handlers, xs::commands, xs::generators, xs::api, xs::nu — look at the existing tests under src/**/tests.rs and tests/ for how they are driven), run with `cargo test --offline --test mutant_demo </dev/null`. Verify both directions yourself (use `git stash` or `git diff > patch; git checkout src` to test without the change; keep the demo file in place).

When done, leave in {wt}/MUTANT/:
  - patch.diff : `git diff -- src Cargo.toml` of your source change only (not the demo)
  - the demonstration file(s) (copy of tests/mutant_demo.rs or script)
  - README.md : which clause of the property breaks, what is needed for it to manifest, the exact commands you ran and their results with and without the change.
Leave the worktree with your change APPLIED. Keep your final reply short: what you changed (file:line), what it needs to manifest, and whether all three conditions were verified.""")
