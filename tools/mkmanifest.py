#!/usr/bin/env python3
"""Writes /verif/MANIFEST.json from the table below (kept in one place so it stays valid)."""
import json, subprocess

HOOK_COMMITS = subprocess.run(["git", "-C", "/repo", "log", "--format=%H %s", "--grep=^verif hooks"],
                              capture_output=True, text=True).stdout.strip().splitlines()

E1_NOTE = ("Trusted base: the reference model in harness/src/model.rs (~400 lines, key-layout independent, three-valued); "
           "the verif clock override (TTL expiry only) and raw-key dump hooks; serde_json transport between parent and child. "
           "Held on the histories explored, nothing more.")

CHECKS = {
 "C01": dict(engine="E1", technique="runtime monitoring: seeded operation histories against the real store in a child process, reference-model comparison after every step (both read paths, get, sweeps)",
             text="Exploration: thousands of generated histories (append/import/remove/clock/GC/reopen/kill/bulk) with every read shape compared against an executable model; reaches memtable-only, flushed-segment, rotated-journal and reopened layouts (read from the directory). It shows the property on the executions observed and catches order/limit/last-id/expiry/context mistakes a dozen unit histories cannot.",
             note=E1_NOTE, ref="§7 E1, §8 C01"),
 "C05": dict(engine="E1", technique="runtime monitoring: histories over adversarial topics/contexts; three-path agreement, head exactness and raw three-partition invariant checked at quiescent points; concurrent leg: head lookups while the newest frames of the topic are removed",
             text="Exploration over topic strings built around the ctx||topic||0x00||id key layout and adjacent context ids; at every quiescent sweep get/all-stream/context-stream agreement, head == last of the observed context stream, and the structural index invariant via the raw-key hook.",
             note=E1_NOTE, ref="§7 E1, §8 C05"),
 "C07": dict(engine="E1", technique="runtime monitoring: context-registration histories with clean and SIGKILL reopen; append accept/reject vs model, probes of every known context id, no-trace checks via raw keys and a live follower; concurrent leg: a registration removed while other threads append into its context",
             text="Exploration of register / unregister / import-registration / append histories with process restarts; the usable-context set is recomputed from stored frames by the model and compared with real accept/reject outcomes before and after every reopen.",
             note=E1_NOTE, ref="§7 E1, §8 C07"),
 "C08": dict(engine="E1", technique="runtime monitoring: TTL histories under a virtual clock, must-survive oracle over get / both read paths / raw keys",
             text="Exploration with the clock placed at ts+N-1 / ts+N / ts+N+1 of live frames and GC drains interleaved with reads; every frame that no rule allows to disappear must be returned by every path.",
             note=E1_NOTE, ref="§7 E1, §8 C08, App. A.4"),
 "C09": dict(engine="E1", technique="runtime monitoring: TTL histories under a virtual clock, must-be-gone oracle (ephemeral never stored but delivered live, time:N hidden then collected, head:N enforced after drain); GC-backlog histories (more expired frames under one read than any bounded collector queue would hold)",
             text="Exploration; same histories as C08 with the opposite oracle, including a live follower per session and physical absence in the raw partitions after a covering read plus a GC drain.",
             note=E1_NOTE, ref="§7 E1, §8 C09, App. A.5"),
}

E2_NOTE = ("Trusted base: client-boundary timestamps from one monotonic clock; unique (writer,seq) metas; sync-point hooks that only sleep/park (20 ms logical timeout) "
           "and count coverage; watchdog expiry is inconclusive, never a violation. Held on the rounds and interleavings observed.")
CHECKS.update({
 "C02": dict(engine="E2", technique="runtime monitoring: multi-writer stress with seeded jitter and directed parking at append sync points; offline history checker (snapshot monotonicity, last-id exactly-once, follower order); HTTP leg (parallel connections, NDJSON/SSE pollers); thorough: the same rounds under a ThreadSanitizer build (different schedule; race reports are observations)",
             text="Exploration of schedules: many short rounds on fresh stores with 2-8 writer threads, pollers, snapshot readers and followers; the schedule is moved by plain parallelism, seeded delays and directed parking between id assignment / commit / broadcast. Oracles look only at what clients were returned.",
             note=E2_NOTE, ref="§7 E2, §8 C02, App. A.6"),
 "C03": dict(engine="E2", technique="runtime monitoring: follow/append interleaving explorer with sync-point perturbation; exactly-once / order / threshold-position checker over the received sequence (A.7); stalled-follower rounds, expired uncollected frames in the history; thorough: the same rounds under a ThreadSanitizer build",
             text="Exploration over history sizes around the 100-slot buffer, start positions, scopes and appenders racing the subscribe/scan/hand-off steps (jitter and directed parking); P/U/Q sets are computed from client-side call/return stamps.",
             note=E2_NOTE, ref="§7 E2, §8 C03, App. A.7"),
 "C11": dict(engine="E2", technique="runtime monitoring: read-option sweep and slow-consumer runs; sequence / closure / gap checker over received items (A.8); thorough: the same rounds under a ThreadSanitizer build",
             text="Exploration of limit x history-size x follow mode x tail x last-id x scope, plus consumers that stall past the 1024+100 frame buffers during replay or afterwards; safety-shaped oracles (exact first n, nothing after the n-th, closes, never past an undelivered frame).",
             note=E2_NOTE, ref="§7 E2, §8 C11, App. A.8"),
})

CHECKS["C12"] = dict(engine="E6", technique="runtime monitoring: generated TTL / ReadOptions / Frame values and grammar-neighbour strings through every spelling; accepted frames pushed through a real store (append, import, reads, reopen) with panic detection; wire legs through the client library (unix socket and loopback TCP) and the command-line client; Miri leg for the TTL codec (thorough)",
             text="Exploration of the wire-reachable value domains (10^5 cases per run) with round-trip oracles, plus a store leg in a child process that offers frames around serde_json's 128-level recursion limit and checks that whatever was accepted is read back identically by both read paths before and after a reopen.",
             note="Trusted base: Rust PartialEq on TTL/ReadOptions/Frame; the float domain is restricted to exactly re-parsable values (DESIGN §9).", ref="§7 E6, §8 C12")

CHECKS["C13"] = dict(engine="E4", technique="runtime monitoring: generated valid and malformed HTTP request sequences over a raw client against the real api::serve; differential comparison with a reference model (status class, body, store state) after every request",
             text="Exploration: every route with valid and invalid ids, contexts, TTLs, options, xs-meta payloads and bodies, NDJSON and SSE renderings, follow streams fed from other connections, client aborts and broken HTTP; after each request a complete response, the model's status class, the route-specific body, store == model and a live server are required. Three 5xx-for-client-error answers are listed as known findings and reproduced deterministically on every run.",
             note="Trusted base: the Appendix-B model, the harness's own HTTP/1.1 parser, the E1 store model for state comparison. Held on the request sequences sent.", ref="§7 E4, §8 C13, App. B")

E5_NOTE = ("Trusted base: the monitor follower's global frame log (C02/C03 assumed for it and checked separately); nushell-level instrumentation of the scripts under test; "
           "absence claims are decided relative to a later frame the same consumer demonstrably processed; watchdog expiry is inconclusive.")
CHECKS["C14"] = dict(engine="E5", technique="runtime monitoring: instrumented handler on a real serve process; offline trace-specification check over the recorded global frame log",
             text="Exploration of resume modes, pre-existing histories (including an earlier instance of the same name), multi-writer bursts while the closure sleeps, foreign-context noise and a second handler; the closure's outputs name the frame it saw and a per-instance counter, so exactly-once / order / no-self-feed / env persistence become sequence comparisons.",
             note=E5_NOTE, ref="§7 E5, §8 C14")

CHECKS["C15"] = dict(engine="E5", technique="runtime monitoring: generated handler programs on a real serve process; per-trigger trace specification over the global frame log plus CAS reads",
             text="Exploration of handler script shapes (explicit appends with every flag, return value types, suffix/ttl options, failure positions and kinds) with a canary handler as progress witness; checks order, stamps, context, TTLs, content and all-or-nothing per call.",
             note=E5_NOTE, ref="§7 E5, §8 C15")
CHECKS["C16"] = dict(engine="E5", technique="runtime monitoring: lifecycle automaton over the recorded frame log; announce/subscribe race forced with a delay hook at the handler task's start",
             text="Exploration of register / replace / invalid / unregister / failing-trigger sequences on several names and contexts with a client that triggers the moment it sees .registered while the handler task is delayed 0-20 ms before subscribing.",
             note=E5_NOTE, ref="§7 E5, §8 C16")
CHECKS["C18"] = dict(engine="E5", technique="runtime monitoring: generator trace specification (start recv* stop)* over the recorded frame log; duplex exactly-once/in-order token check (text and arbitrary bytes); fault case: appends failing during a lifecycle",
             text="Exploration of string-producing generator expressions over several lifecycles, refused spawns and duplex input interleaved with unrelated traffic; any panic of a generator thread is a violation because only in-quantifier expressions are generated.",
             note=E5_NOTE, ref="§7 E5, §8 C18")
CHECKS["C19"] = dict(engine="E5", technique="runtime monitoring: command-call trace specification over the recorded frame log with argument-tagged outputs and overlapping calls",
             text="Exploration of define / redefine / invalid-define / call sequences and bursts of overlapping calls; every output embeds the call's argument, the definition's tag and an isolation probe, so stamp mix-ups, stale definitions, state leaks, duplicate or missing terminal events are set/sequence comparisons.",
             note=E5_NOTE, ref="§7 E5, §8 C19")

CHECKS["C17"] = dict(engine="E5", technique="runtime monitoring: real serve process restarted by SIGKILL / clean stop; probe differential across the restart plus a history-derived expected set for generators",
             text="Exploration of register/spawn/define histories that reuse names across three contexts, followed by 1-2 restarts; the sets of (context, name, id) answering a probe before and after must be equal, generators whose latest spawn succeeded must restart with the same id, and nothing written after the restart may answer a pre-restart trigger or call.",
             note=E5_NOTE, ref="§7 E5, §8 C17")

CHECKS["C06"] = dict(engine="E5", technique="runtime monitoring: context-tagged traffic on a real serve process; every scoped observation (Store API, followers, HTTP routes incl. head-follow, handler/command/generator outputs, .cat/.head inside scripts) checked for foreign tags",
             text="Exploration with five contexts (zero, appended, numerically adjacent ids registered by import), identical topics everywhere and a tag in every frame, so that a leak is visible in the observation itself; covers history and live delivery, all read options, both HTTP renderings, head-follow, handler dispatch, script-level visibility and forced output contexts.",
             note=E5_NOTE, ref="§8 C06")
CHECKS["C10"] = dict(engine="E5", technique="runtime monitoring: entry-point x byte-string matrix with an independent SHA-256; immediate content reads by followers and a handler racing concurrent HTTP writers under append jitter; SIGKILL + reopen content audit; first-writer cases (a script entry point is the first writer of a content); non-UTF-8 content through .cas / .append",
             text="Exploration of twelve content entry points with boundary-sized byte strings and texts, checking reported hashes against the sha2 crate, byte-exact read-back (also after restart), content availability at the moment of delivery, and content presence for every frame visible after a process kill.",
             note=E5_NOTE + " Expected hashes are computed by the harness, not by ssri/cacache.", ref="§8 C10")
CHECKS["C20"] = dict(engine="E1", technique="runtime monitoring: export of an E1-generated store, permuted/duplicated import through the real HTTP API, full observational-equality sweep (incl. raw partitions and usable-context probes) between source and target",
             text="Exploration of source histories and import orders; equality is checked on everything the other properties observe (both read paths, get, heads, raw index partitions, CAS bytes, accept/reject of appends per context id), plus idempotence of re-import and whole rejection of NUL-topic frames.",
             note=E1_NOTE, ref="§8 C20")

CHECKS["C04"] = dict(engine="E3", category="fault_enumeration", technique="runtime monitoring with fault enumeration: strace-recorded storage syscalls replayed into kill / torn-write / power-loss crash images at every effective syscall boundary, each recovered by the real Store::new and compared with the model of the acknowledged operations; plus live SIGKILLs and SIGKILLs of a server under parallel HTTP appends (content present for every visible hash)",
             text="Fault enumeration: within a recorded execution every syscall that changes the store directory is a crash point (with cuts inside writes and a stated power-loss model), so the all-or-nothing and acknowledged-writes-survive clauses are decided at system-call granularity on the real recovery code; across executions (histories, layouts) it is sampling. A fidelity self-check ties the emulator to the live directory.",
             note="Trusted base: strace's log as the total order of storage syscalls and acknowledgements; the file-system emulator in crash/replay.py (self-checked against the live directory on every run); the stated power-loss model; CAS content copied from the live directory after its publishing rename.", ref="§7 E3, §8 C04, App. A.9")

NOT_YET = {
}

ALL = ["C%02d" % i for i in range(1, 21)]

def main():
    checks = []
    for pid in ALL:
        c = CHECKS.get(pid)
        if not c:
            continue
        checks.append({
            "property_id": pid,
            "quick_cmd": f"./run {pid} quick",
            "thorough_cmd": f"./run {pid} thorough",
            "evidence_file": f"/verif/evidence/{pid}.json",
            "replay_cmd_template": "./run --replay {path}",
            "engine": c["engine"],
            "level_claimed": {"category": c.get("category", "exploration"), "text": c["text"], "design_ref": c["ref"]},
            "level_note": c["note"],
            "technique": c["technique"],
        })
    na = [{"property_id": p, "reason": NOT_YET.get(p, "check not built yet in this session (work in progress; see DESIGN.md §0 for the planned engine)")}
          for p in ALL if p not in CHECKS]
    m = {
        "version": 1,
        "setup_cmd": "./setup.sh",
        "hooks": {
            "guard": "cargo feature `verif` (off by default)",
            "enable": "harness/Cargo.toml depends on /repo with features=[\"verif\"]; every ./run rebuilds it from /repo's working tree",
            "baseline_off_cmd": "./baseline_off.sh",
            "source_commits": [l.split()[0] for l in HOOK_COMMITS],
            "add_only": True,
        },
        "engines": [
            {"name": "E1", "path": "harness/src/e1.rs", "serves_properties": ["C01", "C05", "C07", "C08", "C09", "C20"], "kind_free_text": "store-history explorer vs reference model (child-process sessions)"},
            {"name": "E6", "path": "harness/src/e6.rs", "serves_properties": ["C12"], "kind_free_text": "codec round-trip generators + store poison leg"},
            {"name": "E4", "path": "harness/src/e4.rs", "serves_properties": ["C13", "C06", "C10", "C20"], "kind_free_text": "HTTP differential tester (raw client over the unix socket)"},
            {"name": "E5", "path": "harness/src/e5.rs", "serves_properties": ["C14", "C15", "C16", "C17", "C18", "C19", "C06", "C10"], "kind_free_text": "component trace checker over the global frame log of a real serve process"},
            {"name": "E3", "path": "harness/src/e3.rs + crash/replay.py", "serves_properties": ["C04"], "kind_free_text": "crash explorer: strace log -> crash images -> real recovery"},
            {"name": "E2", "path": "harness/src/e2.rs", "serves_properties": ["C02", "C03", "C11"], "kind_free_text": "in-process concurrency stress with sync-point schedule perturbation; history checkers at the client boundary"},
        ],
        "checks": checks,
        "not_applicable": na,
        "notes": "Runtime monitoring only. exit 0 held / 1 VIOLATION / 2 inconclusive-or-harness-error. Known findings: known_findings.json.",
    }
    json.dump(m, open("/verif/MANIFEST.json", "w"), indent=1)
    print("checks:", [c["property_id"] for c in checks], "not_applicable:", len(na))

main()
