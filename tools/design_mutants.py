#!/usr/bin/env python3
"""Hand-made single-site mutants (DESIGN section 8 lists): apply each to /repo, rebuild the harness, run the
named quick checks, undo. Results go to /verif/mutants/RESULTS.md and results.json. These complement the
sub-agent changes in seeded/: they are NOT checked against the repository's own suite here (use --suite)."""
import json, os, subprocess, sys, time

R = '/repo/src/'
M = [
 # id, property, file, old, new, checks, description
 ('D01', 'C01', 'store/mod.rs', '            .take(limit.unwrap_or(usize::MAX))\n    }', '    }', ['C01'], 'read_sync drops the limit entirely'),
 ('D02', 'C01', 'store/mod.rs', '                    Bound::Excluded(v)\n', '                    Bound::Included(v)\n', ['C01', 'C02'], 'context branch: last-id bound inclusive'),
 ('D03', 'C01', 'store/mod.rs', '''                    if let Some(TTL::Time(ttl)) = frame.ttl.as_ref() {
                        if is_expired(&frame.id, ttl) {
                            let _ = gc_tx.send(GCTask::Remove(frame.id));
                            continue;
                        }
                    }

                    last_id = Some(frame.id);

                    if let Some(limit) = options.limit {
                        if count >= limit {
                            return; // Exit early if limit reached
                        }
                    }
''', '''                    if let Some(limit) = options.limit {
                        if count >= limit {
                            return; // Exit early if limit reached
                        }
                    }

                    if let Some(TTL::Time(ttl)) = frame.ttl.as_ref() {
                        if is_expired(&frame.id, ttl) {
                            let _ = gc_tx.send(GCTask::Remove(frame.id));
                            count += 1;
                            continue;
                        }
                    }

                    last_id = Some(frame.id);
''', ['C01'], 'history thread counts expired frames against the limit'),
 ('D04', 'C03', 'store/mod.rs', '''                // Send threshold message if following and no limit
''', '''                // Send threshold message if following and no limit
                let should_follow_clone = should_follow_clone && count % 2 == 0;
''', ['C03'], 'threshold omitted when the historical count is odd'),
 ('D05', 'C04', 'store/mod.rs', '''        batch.insert(&self.idx_context, idx_context_key_from_frame(frame), b"");
        batch.commit()?;
        self.keyspace.persist(fjall::PersistMode::SyncAll)?;
''', '''        batch.insert(&self.idx_context, idx_context_key_from_frame(frame), b"");
        batch.commit()?;
''', ['C04'], 'insert_frame does not persist (no fsync before the acknowledgement)'),
 ('D06', 'C04', 'store/mod.rs', '''        batch.insert(&self.idx_context, idx_context_key_from_frame(frame), b"");
        batch.commit()?;
        self.keyspace.persist(fjall::PersistMode::SyncAll)?;
''', '''        batch.insert(&self.idx_context, idx_context_key_from_frame(frame), b"");
        batch.commit()?;
        self.keyspace.persist(fjall::PersistMode::Buffer)?;
''', ['C04'], 'insert_frame persists with PersistMode::Buffer (write, no fsync)'),
 ('D07', 'C04', 'store/mod.rs', '''        let mut batch = self.keyspace.batch();
        batch.insert(&self.frame_partition, frame.id.as_bytes(), encoded);
        batch.insert(&self.idx_topic, topic_key, b"");
        batch.insert(&self.idx_context, idx_context_key_from_frame(frame), b"");
        batch.commit()?;
''', '''        self.frame_partition.insert(frame.id.as_bytes(), encoded)?;
        self.idx_topic.insert(topic_key, b"")?;
        self.idx_context.insert(idx_context_key_from_frame(frame), b"")?;
''', ['C04'], 'three single-partition inserts instead of one batch'),
 ('D08', 'C05', 'store/mod.rs', '''            .prefix(idx_topic_key_prefix(context_id, topic))
            .rev()
            .find_map''', '''            .prefix({ let mut p = idx_topic_key_prefix(context_id, topic); p.pop(); p })
            .rev()
            .find_map''', ['C05'], 'head scans the prefix without the 0x00 delimiter'),
 ('D09', 'C05', 'store/mod.rs', '''        batch.remove(&self.idx_context, idx_context_key_from_frame(&frame));
''', '', ['C05', 'C01'], 'remove forgets the idx_context tombstone'),
 ('D10', 'C06', 'store/mod.rs', '''                        if let Some(context_id) = options.context_id {
                            if frame.context_id != context_id {
                                continue;
                            }
                        }
''', '', ['C06', 'C03'], 'live task drops the context filter'),
 ('D11', 'C06', 'nu/commands/cat_command.rs', '.read_sync(last_id.as_ref(), limit, Some(self.context_id))', '.read_sync(last_id.as_ref(), limit, None)', ['C06'], '.cat reads all contexts'),
 ('D12', 'C06', 'handlers/handler.rs', '            output_frame.context_id = self.context_id;\n', '', ['C06', 'C15'], 'handler output keeps the context the script asked for'),
 ('D13', 'C07', 'store/mod.rs', '''            if frame.topic == "xs.context" {
                store.contexts.write().unwrap().insert(frame.id);
            }''', '''            if frame.topic == "xs.context" && false {
                store.contexts.write().unwrap().insert(frame.id);
            }''', ['C07'], 'registry not reloaded at open'),
 ('D14', 'C07', 'store/mod.rs', '''            self.contexts.write().unwrap().remove(&frame.id);
''', '', ['C07'], 'removing a registration does not unregister'),
 ('D15', 'C07', 'store/mod.rs', '''            frame.ttl = Some(TTL::Forever);
            self.contexts.write()''', '''            self.contexts.write()''', ['C07'], 'xs.context keeps the requested TTL'),
 ('D16', 'C08', 'store/mod.rs', '''                    let prefix = idx_topic_key_prefix(context_id, &topic);
                    let frames_to_remove''', '''                    let prefix = idx_topic_key_prefix(context_id, &topic);
                    let prefix = prefix[..prefix.len() - 1].to_vec();
                    let frames_to_remove''', ['C08'], 'head GC prefix without the delimiter (touches prefix-related topics)'),
 ('D17', 'C08', 'store/mod.rs', '.skip(keep as usize)', '.skip((keep as usize).saturating_sub(1).max(1))', ['C08', 'C09'], 'head GC keeps one frame too few for K >= 2'),
 ('D18', 'C09', 'store/mod.rs', '''        if frame.ttl != Some(TTL::Ephemeral) {
            self.insert_frame(&frame)?;''', '''        if frame.ttl != Some(TTL::Ephemeral) || frame.topic.len() > 2 {
            self.insert_frame(&frame)?;''', ['C09'], 'ephemeral frames with topics longer than two bytes are stored'),
 ('D19', 'C09', 'store/mod.rs', '''                    if is_expired(&frame.id, ttl) {
                        let _ = self.gc_tx.send(GCTask::Remove(frame.id));
                        return false;
                    }''', '''                    if is_expired(&frame.id, ttl) {
                        let _ = self.gc_tx.send(GCTask::Remove(frame.id));
                        return true;
                    }''', ['C09', 'C01'], 'read_sync returns expired frames'),
 ('D20', 'C09', 'store/mod.rs', '''            if let Some(TTL::Head(n)) = frame.ttl {
                let _ = self.gc_tx.send''', '''            if let Some(TTL::Head(n)) = frame.ttl.clone().filter(|_| !frame.topic.is_empty()) {
                let _ = self.gc_tx.send''', ['C09'], 'no head GC for the empty topic'),
 ('D21', 'C11', 'store/mod.rs', '''                        if tx.send(frame).await.is_err() {
                            break;
                        }

                        if let Some(limit) = limit {
                            count += 1;
                            if count >= limit {
                                break;
                            }
                        }''', '''                        if let Some(limit) = limit {
                            count += 1;
                            if count >= limit {
                                break;
                            }
                        }

                        if tx.send(frame).await.is_err() {
                            break;
                        }''', ['C11'], 'live task checks the limit before sending (n-1 delivered)'),
 ('D22', 'C11', 'store/mod.rs', 'if should_follow_clone && options.limit.is_none() {', 'if should_follow_clone {', ['C11'], 'threshold sent although a limit is set'),
 ('D23', 'C11', 'store/mod.rs', '''                    while let Ok(frame) = broadcast_rx.recv().await {''', '''                    loop {
                        let frame = match broadcast_rx.recv().await {
                            Ok(frame) => frame,
                            Err(tokio::sync::broadcast::error::RecvError::Lagged(_)) => continue,
                            Err(_) => break,
                        };''', ['C11'], 'a lagging follower continues past the gap'),
 ('D24', 'C12', 'store/ttl.rs', 'TTL::Time(duration) => format!("ttl=time:{}", duration.as_millis()),', 'TTL::Time(duration) => format!("ttl=time:{}", duration.as_secs()),', ['C12'], 'query spelling of time TTL in seconds'),
 ('D25', 'C12', 'store/ttl.rs', '            if n < 1 {', '            if false && n < 1 {', ['C12'], 'head:0 accepted'),
 ('D26', 'C12', 'store/mod.rs', 'params.push(("follow", duration.as_millis().to_string()));', 'params.push(("follow", duration.as_secs().to_string()));', ['C12'], 'heartbeat encoded in seconds by the client'),
 ('D27', 'C13', 'api.rs', '"id: {}\\ndata: {}\\n\\n",\n                frame.id,', '"id: {}\\ndata: {}\\n\\n",\n                frame.context_id,', ['C13'], 'SSE id field carries the context id'),
 ('D28', 'C13', 'api.rs', '''        Routes::StreamItemRemove(id) => handle_stream_item_remove(&mut store, id).await,''', '''        Routes::StreamItemRemove(id) if store.get(&id).map(|f| f.topic != "keep").unwrap_or(true) => handle_stream_item_remove(&mut store, id).await,
        Routes::StreamItemRemove(_) => response_404(),''', ['C13'], 'DELETE refuses frames of one topic (404)'),
 ('D29', 'C14', 'handlers/handler.rs', '''                .filter(|handler_id| *handler_id == self.id.to_string())
                .is_some()
            {
                continue;
            }''', '''                .filter(|handler_id| *handler_id == self.id.to_string())
                .is_some()
                && frame.topic.ends_with(".out")
            {
                continue;
            }''', ['C14'], 'own-output filter only for .out frames (explicit appends feed back)'),
 ('D30', 'C14', 'handlers/handler.rs', '                && frame.id <= self.id\n', '                && frame.id < self.id\n', ['C14', 'C16'], 'registration skipping uses < instead of <='),
 ('D31', 'C14', 'handlers/handler.rs', '                let _ = engine.state.merge_env(&mut stack);\n', '', ['C14'], 'environment of an invocation not merged back'),
 ('D32', 'C15', 'handlers/handler.rs', '''            output
                .drain(..)
                .chain(additional_frame.into_iter())
                .collect()''', '''            additional_frame
                .into_iter()
                .chain(output.drain(..).collect::<Vec<_>>())
                .collect()''', ['C15'], 'return frame emitted before the explicit appends'),
 ('D33', 'C16', 'handlers/handler.rs', '''            if frame.topic == format!("{}.register", &self.topic)
                || frame.topic == format!("{}.unregister", &self.topic)
            {
                let _ = store.append(''', '''            if frame.topic == format!("{}.register", &self.topic) {
                break;
            }
            if frame.topic == format!("{}.unregister", &self.topic)
            {
                let _ = store.append(''', ['C16'], 'replacement stops the old instance without .unregistered'),
 ('D34', 'C17', 'handlers/serve.rs', '''                "unregister" | "unregistered" => {''', '''                "unregister" => {''', ['C17'], 'start-up ignores .unregistered (failed handlers come back)'),
 ('D35', 'C18', 'generators/serve.rs', '''        "source_id": task.id.to_string(),
    });
''', '''        "source_id": if suffix == "stop" { task.topic.clone() } else { task.id.to_string() },
    });
''', ['C18'], 'stop frame carries the wrong source_id'),
 ('D36', 'C19', 'commands/serve.rs', '''                        .meta(serde_json::json!({
                            "command_id": command.id.to_string(),
                            "frame_id": frame.id.to_string(),
                        }))
                        .build(),
                    );
                }

                // Emit completion event''', '''                        .meta(serde_json::json!({
                            "command_id": command.id.to_string(),
                            "frame_id": frame.id.to_string(),
                        }))
                        .build(),
                    );
                    if ttl == Some(crate::store::TTL::Ephemeral) { break; }
                }

                // Emit completion event''', ['C19'], 'ephemeral result TTL: only the first value is emitted'),
 ('D37', 'C20', 'store/mod.rs', '''        if frame.topic == "xs.context" && frame.context_id == ZERO_CONTEXT {
            self.contexts.write().unwrap().insert(frame.id);
        }
        Ok(())''', '''        if frame.topic == "xs.context" && frame.context_id == ZERO_CONTEXT {
            self.contexts.write().unwrap().insert(frame.id);
        }
        let _ = self.broadcast_tx.send(frame.clone());
        Ok(())''', ['C20', 'C01'], 'import broadcasts the frame'),
 ('D38', 'C10', 'api.rs', '''        if bytes_written > 0 {
            Some(writer.commit().await?)''', '''        if bytes_written > 1 {
            Some(writer.commit().await?)''', ['C10', 'C13'], 'one-byte bodies get no hash'),
 ('D39', 'C02', 'store/mod.rs', '''        let _guard = self.append_lock.lock().unwrap();
        frame.id = scru128::new();''', '''        frame.id = scru128::new();
        let _guard = self.append_lock.lock().unwrap();''', ['C02', 'C03'], 'id assigned before the append lock is taken'),
 ('D40', 'C02', 'store/mod.rs', '''        let _ = self.broadcast_tx.send(frame.clone());
        #[cfg(feature = "verif")]
        crate::verif::sync_point("append.broadcast", Some(&frame.id));''', '''        drop(_guard);
        let _ = self.broadcast_tx.send(frame.clone());
        #[cfg(feature = "verif")]
        crate::verif::sync_point("append.broadcast", Some(&frame.id));''', ['C02', 'C03'], 'broadcast outside the append lock'),
 ('D41', 'C11', 'store/mod.rs', '''                        tokio::select! {
                            _ = &mut live_done_rx => break,
                            _ = tokio::time::sleep(duration) => {}
                        }''', '''                        let _ = &mut live_done_rx;
                        tokio::time::sleep(duration).await;''', ['C11'], 'heartbeats never stop after the live task ended (lagged / limit reached)'),
]


def sh(cmd, **kw):
    return subprocess.run(cmd, shell=True, capture_output=True, text=True, **kw)


def main():
    only = [a for a in sys.argv[1:] if not a.startswith('--')]
    suite = '--suite' in sys.argv
    os.makedirs('/verif/mutants', exist_ok=True)
    res_path = '/verif/mutants/results.json'
    results = json.load(open(res_path)) if os.path.exists(res_path) else {}
    assert sh('git -C /repo status --porcelain -- src Cargo.toml').stdout.strip() == '', '/repo has local edits'
    for (mid, prop, f, old, new, checks, desc) in M:
        if only and mid not in only:
            continue
        path = R + f
        src = open(path).read()
        if src.count(old) != 1:
            results[mid] = {'property': prop, 'desc': desc, 'status': 'pattern-not-found(%d)' % src.count(old)}
            print(mid, results[mid]['status'])
            continue
        open(path, 'w').write(src.replace(old, new))
        entry = {'property': prop, 'file': f, 'desc': desc, 'checks': {}}
        try:
            b = sh('cd /verif/harness && cargo build --release --offline 2>&1 | tail -5')
            if 'error' in b.stdout and 'Finished' not in b.stdout:
                entry['status'] = 'does-not-compile'
                entry['build'] = b.stdout[-600:]
            else:
                if suite:
                    t = sh('cd /repo && cargo test --workspace --no-fail-fast --offline </dev/null 2>&1 | grep -E "^test result|FAILED" | head -5')
                    entry['suite'] = t.stdout.strip()
                for c in checks:
                    t0 = time.time()
                    r = sh('cd /verif && XSMON_OUT=/verif/work/dm ./run %s quick 2>&1 | grep -E "signature|-> exit|INCONCLUSIVE|HARNESS-ERROR" | tail -12' % c)
                    lines = r.stdout.strip().splitlines()
                    sigs = [l.split('signature: ')[1] for l in lines if 'signature: ' in l]
                    if any('HARNESS-ERROR' in l for l in lines):
                        entry.setdefault('harness_errors', []).append(c)
                    verdict = 'detected' if (any('exit 1' in l for l in lines) or sigs) else ('inconclusive' if any('exit 2' in l for l in lines) else 'missed')
                    entry['checks'][c] = {'verdict': verdict, 'signatures': sigs[:3], 'secs': round(time.time() - t0, 1)}
                entry['status'] = 'detected' if any(v['verdict'] == 'detected' for v in entry['checks'].values()) else 'MISSED'
        finally:
            open(path, 'w').write(src)
        results[mid] = entry
        print(mid, prop, entry['status'], {c: v['verdict'] for c, v in entry.get('checks', {}).items()}, '-', desc, flush=True)
        json.dump(results, open(res_path, 'w'), indent=1)
    sh('rm -rf /verif/work/dm')
    # rebuild against the clean tree
    sh('cd /verif/harness && cargo build --release --offline')
    with open('/verif/mutants/RESULTS.md', 'w') as out:
        out.write('# Hand-made design mutants (tools/design_mutants.py)\n\nSingle-site changes from the mutant lists of DESIGN section 8, applied to /repo, checked with the quick tier, reverted.\n\n| id | property | change | result | by |\n|---|---|---|---|---|\n')
        for mid in sorted(results):
            e = results[mid]
            by = '; '.join('%s: %s%s' % (c, v['verdict'], (' (' + v['signatures'][0] + ')') if v['signatures'] else '') for c, v in e.get('checks', {}).items())
            out.write('| %s | %s | %s | %s | %s |\n' % (mid, e.get('property'), e.get('desc'), e.get('status'), by))


if __name__ == '__main__':
    main()
