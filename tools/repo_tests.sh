#!/bin/bash
# run the repository's suite (feature off) and summarise: "passed=N failed=M"
cd /repo && cargo test --workspace --no-fail-fast --offline </dev/null 2>&1 | tee /tmp/repo_tests.log | grep -E "^test result|FAILED|panicked" | head -20
p=$(grep -cE "^test .* \.\.\. ok$" /tmp/repo_tests.log); f=$(grep -cE "^test .* \.\.\. FAILED$" /tmp/repo_tests.log)
echo "passed=$p failed=$f"
grep -E "^test .* \.\.\. FAILED$" /tmp/repo_tests.log
