#!/bin/bash
# rmwt.sh <name>: remove a scratch worktree with its build output
git -C /repo worktree remove --force "/tmp/wt/$1" 2>/dev/null; rm -rf "/tmp/wt/$1"; git -C /repo worktree prune
