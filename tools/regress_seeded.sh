#!/bin/bash
# regress_seeded.sh [ids...]: apply every kept change to /repo in turn and run the quick tier of the check(s) named
# first in its meta.json "detected_by" (plus the property's own check); prints one line per change. Occupies /repo.
cd /verif
ids=("$@"); [ ${#ids[@]} -eq 0 ] && ids=($(ls seeded | sed 's/-.*//'))
for id in "${ids[@]}"; do
  d=$(ls -d seeded/$id-* seeded/$id 2>/dev/null | head -1)
  checks=$(python3 - "$d" <<'PY'
import json,re,sys
m=json.load(open(sys.argv[1]+'/meta.json'))
own=m['breaks_property']
det=' '.join(x if isinstance(x,str) else json.dumps(x) for x in m.get('detected_by',[]))
first=re.findall(r'C\d\d', det)
out=[]
for c in ([own] if own in first or not first else []) + first[:2]:
    if c not in out: out.append(c)
print(' '.join(out[:2]))
PY
)
  res=""
  for c in $checks; do
    r=$(tools/try_mutant.sh /verif/$d/patch.diff $c 2>&1 | grep -E "VIOLATION|exit [0-9]|HARNESS|BUILD-FAILED|does not apply" | sort -u | tr '\n' ' ')
    case "$r" in *VIOLATION*|*"exit 1"*) v=detected;; *"exit 2"*|*HARNESS*) v=inconclusive;; *BUILD*) v=build-failed;; *"does not apply"*) v=patch-does-not-apply;; *) v=MISSED;; esac
    res="$res $c:$v"
    [ "$v" = detected ] && break
  done
  echo "$id$res"
done
