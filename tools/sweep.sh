#!/bin/bash
# sweep.sh <tier> <seeds...> -- <checks...>: background sweep with a private copy of the binary and
# private evidence/replay output (never touches /verif/evidence). Prints only verdict lines.
tier="$1"; shift
seeds=(); while [ "$1" != "--" ]; do seeds+=("$1"); shift; done; shift
out=/verif/work/sweep-$$; mkdir -p $out; cp /verif/target/release/xsmon /verif/target/release/xs-real $out/
for c in "$@"; do for s in "${seeds[@]}"; do
  XSMON_OUT=$out VERIF_SEED=$s $out/xsmon check $c $tier 2>&1 | grep -E "signature|exit|INCONCLUSIVE" | sed "s|^|[$c s=$s] |"
done; done
echo "sweep done; replays (if any) under $out/replays"
