#!/bin/bash
# audit_seeded.sh [ids...]: in one scratch worktree (private target dir), for each seeded change check that its
# stored demo FAILS with its stored patch and PASSES without it. Prints one line per change.
export CARGO_NET_OFFLINE=true; unset CARGO_TARGET_DIR
W=/tmp/wt/audit
[ -d $W ] || /verif/tools/mkwt.sh audit >/dev/null
cd $W || exit 2
ids=("$@"); [ ${#ids[@]} -eq 0 ] && ids=($(ls /verif/seeded | sed 's/-.*//'))
for id in "${ids[@]}"; do
  d=$(ls -d /verif/seeded/$id-* /verif/seeded/$id 2>/dev/null | head -1)
  git checkout -q -- . ; rm -f tests/mutant_demo*.rs
  demos=$(ls $d/mutant_demo*.rs 2>/dev/null)
  [ -n "$demos" ] || { echo "$id: no rust demo ($(ls $d | tr '\n' ' '))"; continue; }
  cp $demos tests/
  names=$(cd tests && ls mutant_demo*.rs | sed 's/\.rs$//')
  git apply $d/patch.diff 2>/dev/null || { echo "$id: patch does not apply to HEAD"; continue; }
  find src tests -name "*.rs" -exec touch {} +
  with=""; for t in $names; do r=$(timeout 900 cargo test --offline --test $t </dev/null 2>&1 | grep -E "^test result|^error" | head -1); with="$with[$r]"; done
  git checkout -q -- src Cargo.toml
  find src tests -name "*.rs" -exec touch {} +
  without=""; for t in $names; do r=$(timeout 900 cargo test --offline --test $t </dev/null 2>&1 | grep -E "^test result|^error" | head -1); without="$without[$r]"; done
  w=$(echo "$with" | grep -c FAILED); o=$(echo "$without" | grep -c "FAILED\|error")
  verdict=BAD; [ "$w" -ge 1 ] && [ "$o" -eq 0 ] && verdict=OK
  echo "$id: $verdict with=$(echo $with | cut -c1-90) without=$(echo $without | cut -c1-90)"
done
rm -f tests/mutant_demo*.rs; git checkout -q -- .
