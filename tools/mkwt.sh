#!/bin/bash
# mkwt.sh <name>: scratch worktree of /repo HEAD under /tmp/wt/<name> with a hard-linked copy of the build cache
set -e
n="$1"; d=/tmp/wt/$n
mkdir -p /tmp/wt
git -C /repo worktree add -f --detach "$d" HEAD >/dev/null 2>&1
cp -a /repo/target "$d/target" 2>/dev/null || true
mkdir -p "$d/MUTANT"
echo "$d"
